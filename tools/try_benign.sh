#!/bin/bash
# usage: try_benign.sh <patch.diff>  — apply a behaviour-preserving change to /repo, run ALL quick checks, undo it.
# Any exit != 0 is a false alarm of the machinery.
P=$1
[ -z "$(git -C /repo status --porcelain)" ] || { echo "/repo dirty"; exit 2; }
git -C /repo apply "$P" || { echo "patch does not apply to /repo"; exit 2; }
bad=0
for prop in C01 C02 C03 C04 C05 C06 C07 C08 C09 C10 C11 C12 C13 C14 C15 C16 C17 C18 C19 C20; do
  out=$(cd /verif && VERIF_RUNS=${BENIGN_RUNS:-700} ./check $prop quick 2>&1); rc=$?
  if [ $rc -ne 0 ]; then bad=1; echo "== $prop exit=$rc :: $(echo "$out" | grep -E '^violation in run|HARNESS' | head -1 | cut -c1-400)"; fi
done
[ $bad -eq 0 ] && echo "all 20 checks silent"
git -C /repo checkout -- .
