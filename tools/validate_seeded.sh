#!/bin/bash
# usage: validate_seeded.sh <ID> [worktree] [subdir of _out]   — confirm a seeded change in a scratch worktree:
#  (1) patch only: the whole shipped suite passes; (2) patch + demo: the demo fails; (3) demo only: everything passes.
ID=$1; WT=${2:-/tmp/krp-mut-$ID}; OUT=$WT/_out${3:+/$3}
cd "$WT" || exit 2
export CARGO_TARGET_DIR=$WT/target CARGO_NET_OFFLINE=true
git checkout -q -- . && git clean -fdq -e _out -e target
summ() { grep -E "^test result" | awk '{p+=$4; f+=$6} END {print "passed="p" failed="f}'; }
git apply "$OUT/patch.diff" || { echo "patch does not apply"; exit 2; }
echo -n "patch only:        "; cargo test --workspace --offline 2>&1 | summ
git apply "$OUT/demo.diff" || { echo "demo does not apply on patched tree"; }
echo -n "patch + demo:      "; cargo test --workspace --offline 2>&1 | tee /tmp/val-$ID.log | summ
grep -E "^test .* FAILED|^---- .* stdout" /tmp/val-$ID.log | head -5
git apply -R "$OUT/patch.diff"
echo -n "demo only (clean): "; cargo test --workspace --offline 2>&1 | summ
git checkout -q -- . && git clean -fdq -e _out -e target
