#!/bin/bash
# Reach measure: line coverage of the contract sources in /repo under the simulator.
# Builds an instrumented simulator with the nightly toolchain into a scratch directory
# (nothing under /verif or /repo is written; not a registered check), runs RUNS runs of
# every property's quick profile and prints per-file coverage plus the uncovered lines.
# usage: tools/coverage.sh [runs-per-property] [--lines]
RUNS=${1:-200}
T=/tmp/cov-target; P=/tmp/cov-prof; R=/tmp/cov-root
B=$(dirname $(rustup which --toolchain nightly rustc))/../lib/rustlib/x86_64-unknown-linux-gnu/bin
rm -rf $P $R; mkdir -p $P $R/evidence $R/replays; cp /verif/known_findings.json $R/
# build scripts and proc macros are instrumented too: send their profiles to the scratch dir
( cd /verif/sim && LLVM_PROFILE_FILE=$P/build-%p-%m.profraw CARGO_NET_OFFLINE=true RUSTFLAGS="-C instrument-coverage" CARGO_TARGET_DIR=$T cargo +nightly build --release --offline >/dev/null 2>&1 ) || { echo "build failed"; exit 2; }
rm -f $P/build-*.profraw
cd $R
for i in 01 02 03 04 05 06 07 08 09 10 11 12 13 14 15 16 17 18 19 20; do
  VERIF_ROOT=$R VERIF_RUNS=$RUNS VERIF_WORKERS=4 LLVM_PROFILE_FILE=$P/C$i-%p.profraw $T/release/simchain check C$i quick 2>&1 | grep -E "exit=" | cut -c1-120 &
  [ $(( 10#$i % 4 )) -eq 0 ] && wait
done; wait
$B/llvm-profdata merge -sparse $P/C*.profraw -o /tmp/cov.profdata
SRC=$(find /repo/contracts /repo/packages -name "*.rs" -not -path "*/testing/*" -not -name "*test*" -not -path "*/examples/*" -not -path "*/target/*")
$B/llvm-cov report $T/release/simchain -instr-profile=/tmp/cov.profdata $SRC 2>/dev/null | awk '{printf "%-72s %6s %6s %8s\n", $1, $8,$9,$10}'
if [ "${2:-}" = "--lines" ]; then
  for f in $SRC; do echo "=== $f"; $B/llvm-cov show $T/release/simchain -instr-profile=/tmp/cov.profdata $f --show-line-counts-or-regions 2>/dev/null | grep -E "^ +[0-9]+\| +0\|" | cut -c1-150; done
fi
rm -rf $P $R
