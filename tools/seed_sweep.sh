#!/bin/bash
# quick tier under many VERIF_SEED values (looking for alarms on the unchanged tree)
# usage: tools/seed_sweep.sh <first> <last> [repo-root]
cd "$(dirname "$0")/.."
if [ -n "${3:-}" ]; then sed -i "s#\"/repo/#\"$3/#g" sim/Cargo.toml; fi
for seed in $(seq $1 $2); do
  for p in C01 C02 C03 C04 C05 C06 C07 C08 C09 C10 C11 C12 C13 C14 C15 C16 C17 C18 C19 C20; do
    out=$(VERIF_SEED=$seed ./check $p quick 2>&1); rc=$?
    if [ $rc -ne 0 ]; then echo "seed=$seed $p exit=$rc"; echo "$out" | grep -E "VIOLATION|HARNESS|^violation" | cut -c1-400; cp -n replays/*.json /tmp/sweep-replays/ 2>/dev/null; fi
  done
  echo "seed=$seed done"
done
