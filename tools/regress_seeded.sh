#!/bin/bash
# Regression over everything in /verif/seeded: every breaking change must still be caught by the
# quick check of its property (exit 1), every benign control must leave all twenty checks silent.
# Runs on private copies (REPO_COPY, VERIF_COPY) so that /repo and /verif stay untouched.
REPO_COPY=${REPO_COPY:-/tmp/repo-reg}; VERIF_COPY=${VERIF_COPY:-/tmp/verif-reg}
git -C /repo worktree remove --force $REPO_COPY 2>/dev/null; git -C /repo worktree prune
git -C /repo worktree add --detach $REPO_COPY HEAD >/dev/null 2>&1 || exit 2
rm -rf $VERIF_COPY; mkdir -p $VERIF_COPY
rsync -a --exclude sim/target --exclude .git /verif/ $VERIF_COPY/
sed -i "s#\"/repo/#\"$REPO_COPY/#g" $VERIF_COPY/sim/Cargo.toml
cd $VERIF_COPY
out=/verif/seeded/REGRESSION.txt; [ -n "${APPEND:-}" ] || : > $out
# REG_GLOB / BEN_GLOB restrict the run (default: everything); APPEND=1 keeps earlier lines
for d in $(cd /verif/seeded && ls -d ${REG_GLOB:-C*} 2>/dev/null | sed "s#^#/verif/seeded/#"); do
  id=$(basename $d); prop=$(python3 -c "import json;print(json.load(open('$d/meta.json'))['property'])")
  extra=$(python3 -c "
import json;m=json.load(open('$d/meta.json'))['detection']
p='$prop'
# if the primary property is documented as not catching it, use the first property that does
if p in m and m[p].startswith('not caught'):
    print(next((k for k,v in m.items() if v.startswith('caught')), 'NONE'))
else: print(p)")
  if [ "$extra" = "NONE" ]; then echo "$id not caught by any check, by argument (see meta.json)" | tee -a $out; continue; fi
  git -C $REPO_COPY apply $d/patch.diff || { echo "$id APPLY-FAILED" | tee -a $out; continue; }
  r=$(VERIF_RUNS=${REG_RUNS:-1600} ./check $extra quick 2>&1); rc=$?
  echo "$id property=$extra exit=$rc $(echo "$r" | grep -E '^violation in run' | head -1 | cut -c1-160)" | tee -a $out
  git -C $REPO_COPY checkout -- .
done
for d in $(cd /verif/seeded && ls -d ${BEN_GLOB:-benign-*} 2>/dev/null | sed "s#^#/verif/seeded/#"); do
  id=$(basename $d); git -C $REPO_COPY apply $d/patch.diff || { echo "$id APPLY-FAILED" | tee -a $out; continue; }
  bad=""
  for p in C01 C02 C03 C04 C05 C06 C07 C08 C09 C10 C11 C12 C13 C14 C15 C16 C17 C18 C19 C20; do
    VERIF_RUNS=${BENIGN_RUNS:-500} ./check $p quick >/dev/null 2>&1 || bad="$bad $p"
  done
  echo "$id alarms=[${bad}]" | tee -a $out
  git -C $REPO_COPY checkout -- .
done
git -C /repo worktree remove --force $REPO_COPY; rm -rf $VERIF_COPY
