#!/bin/bash
# run every thorough tier once (background sweep looking for alarms on the unchanged tree)
# usage: tools/thorough_all.sh [repo-root]   (repo-root: snapshot of /repo to build against)
cd "$(dirname "$0")/.."
if [ -n "${1:-}" ]; then sed -i "s#\"/repo/#\"$1/#g" sim/Cargo.toml; fi
for p in ${PROPS:-C01 C02 C03 C04 C05 C06 C07 C08 C09 C10 C11 C12 C13 C14 C15 C16 C17 C18 C19 C20}; do
  ./check $p thorough 2>&1 | grep -E "^property=|VIOLATION|HARNESS|^violation|KNOWN|note:" | cut -c1-400
done
