#!/bin/bash
# usage: try_seeded.sh <patch.diff> <prop> [prop...]  — apply a seeded change to /repo, run the quick checks, undo it.
P=$1; shift
[ -z "$(git -C /repo status --porcelain)" ] || { echo "/repo dirty"; exit 2; }
git -C /repo apply "$P" || { echo "patch does not apply to /repo"; exit 2; }
for prop in "$@"; do
  out=$(cd /verif && ./check $prop quick 2>&1)
  rc=$?
  echo "== $prop exit=$rc :: $(echo "$out" | grep -E '^violation in run' | head -1 | cut -c1-300)"
  echo "$out" | grep -E "^VIOLATION|^property=" | head -3
done
git -C /repo checkout -- .
