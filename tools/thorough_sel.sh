#!/bin/bash
# selected thorough tiers, one group of properties at a time (all members of a group in parallel)
# usage: tools/thorough_sel.sh <repo-root|-> "C01 C08 C18 C20" ["C09 C07 ..."]...
cd "$(dirname "$0")/.."
if [ "${1:--}" != "-" ]; then sed -i "s#\"/repo/#\"$1/#g" sim/Cargo.toml; fi
shift
export VERIF_WORKERS=${VERIF_WORKERS:-4}
./check C01 quick >/dev/null 2>&1   # build once before the parallel part
run() { out=$(./check $1 thorough 2>&1); rc=$?; echo "$out" | grep -E "VIOLATION|KNOWN-FINDING|HARNESS|^violation|exit=" | cut -c1-400; [ $rc -ne 0 ] && echo "$1 EXIT=$rc"; }
for group in "$@"; do
  for p in $group; do run $p & done
  wait
done
echo "thorough_sel done"
