#!/bin/bash
# every thorough tier once, two properties at a time (each with VERIF_WORKERS, default 8)
# usage: tools/thorough_par.sh [repo-root]
cd "$(dirname "$0")/.."
if [ -n "${1:-}" ]; then sed -i "s#\"/repo/#\"$1/#g" sim/Cargo.toml; fi
export VERIF_WORKERS=${VERIF_WORKERS:-8}
./check C01 quick >/dev/null 2>&1   # build once before the parallel part
run() { out=$(./check $1 thorough 2>&1); rc=$?; echo "$out" | grep -E "VIOLATION|KNOWN-FINDING|HARNESS|^violation|exit=" | cut -c1-400; [ $rc -ne 0 ] && echo "$1 EXIT=$rc"; }
for pair in "C01 C02" "C03 C04" "C05 C06" "C07 C08" "C09 C10" "C11 C12" "C13 C14" "C15 C16" "C17 C18" "C19 C20"; do
  set -- $pair
  run $1 & run $2 & wait
done
echo "thorough_par done"
