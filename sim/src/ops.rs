//! Operation catalogue. Every `Op` expands to one transaction whose JSON is produced
//! with the repository's own message types, so a message type that changes shape in
//! /repo changes the simulator's traffic with it.

use crate::chain::*;
use crate::wasm::Tx;
use cosmwasm_std::{to_json_binary, Binary, Coin, Decimal, Uint128};
use cw20::Expiration;
use serde::{Deserialize, Serialize};

#[derive(Clone, Copy, Debug, PartialEq, Eq, Hash, PartialOrd, Ord, Serialize, Deserialize)]
pub enum Tok {
    B,
    St,
}

impl Tok {
    pub fn addr(&self) -> &'static str {
        match self {
            Tok::B => BSEI,
            Tok::St => STSEI,
        }
    }
    pub fn idx(&self) -> usize {
        match self {
            Tok::B => 0,
            Tok::St => 1,
        }
    }
}

#[derive(Clone, Copy, Debug, PartialEq, Eq, Serialize, Deserialize)]
pub enum Hook {
    Unbond,
    Convert,
    /// plain payload for the sink contract
    Nop,
}

#[derive(Clone, Copy, Debug, PartialEq, Eq, Serialize, Deserialize)]
pub enum Exp {
    Never,
    AtHeight(u64),
    AtTime(u64),
    /// `expires: None` in the message (keep the stored expiration)
    Keep,
}

impl Exp {
    pub fn to_msg(&self) -> Option<Expiration> {
        match self {
            Exp::Never => Some(Expiration::Never {}),
            Exp::AtHeight(h) => Some(Expiration::AtHeight(*h)),
            Exp::AtTime(t) => Some(Expiration::AtTime(cosmwasm_std::Timestamp::from_seconds(*t))),
            Exp::Keep => None,
        }
    }
}

#[derive(Clone, Debug, PartialEq, Serialize, Deserialize)]
pub enum Op {
    Bond { user: String, amount: Uint128 },
    BondStSei { user: String, amount: Uint128 },
    /// cw20 Send of `tok` from `from` to `to` with a hub hook (Unbond / Convert) or to the sink
    Send { tok: Tok, from: String, to: String, amount: Uint128, hook: Hook },
    /// allowance based: `spender` sends `owner`'s tokens (the cw20 "sender" seen by the hub is the spender)
    SendFrom { tok: Tok, spender: String, owner: String, to: String, amount: Uint128, hook: Hook },
    Withdraw { user: String, attach: Uint128 },
    Transfer { tok: Tok, from: String, to: String, amount: Uint128 },
    IncAllowance { tok: Tok, owner: String, spender: String, amount: Uint128, exp: Exp },
    DecAllowance { tok: Tok, owner: String, spender: String, amount: Uint128, exp: Exp },
    TransferFrom { tok: Tok, spender: String, owner: String, to: String, amount: Uint128 },
    BurnFrom { tok: Tok, spender: String, owner: String, amount: Uint128 },
    Claim { user: String, recipient: Option<String> },
    CheckSlashing { sender: String, attach: Uint128 },
    UpdateIndex { sender: String },
    Redelegations { sender: String, validator: String },
    AddValidator { sender: String, validator: String },
    RemoveValidator { sender: String, validator: String },
    /// anything else (owner / intruder messages), spelled out
    Raw { tag: String, tx: Tx },
}

fn hook_bin(h: Hook) -> Binary {
    match h {
        Hook::Unbond => to_json_binary(&basset::hub::Cw20HookMsg::Unbond {}).unwrap(),
        Hook::Convert => to_json_binary(&basset::hub::Cw20HookMsg::Convert {}).unwrap(),
        Hook::Nop => Binary::from(b"{}".to_vec()),
    }
}

fn coin(a: Uint128) -> Vec<Coin> {
    if a.is_zero() {
        vec![]
    } else {
        vec![Coin::new(a.u128(), DENOM)]
    }
}

impl Op {
    pub fn name(&self) -> &'static str {
        match self {
            Op::Bond { .. } => "bond",
            Op::BondStSei { .. } => "bond_stsei",
            Op::Send { hook: Hook::Unbond, tok: Tok::B, .. } => "unbond_bsei",
            Op::Send { hook: Hook::Unbond, tok: Tok::St, .. } => "unbond_stsei",
            Op::Send { hook: Hook::Convert, tok: Tok::B, .. } => "convert_b_to_st",
            Op::Send { hook: Hook::Convert, tok: Tok::St, .. } => "convert_st_to_b",
            Op::Send { hook: Hook::Nop, .. } => "send_sink",
            Op::SendFrom { hook: Hook::Unbond, .. } => "unbond_send_from",
            Op::SendFrom { hook: Hook::Convert, .. } => "convert_send_from",
            Op::SendFrom { hook: Hook::Nop, .. } => "send_from_sink",
            Op::Withdraw { .. } => "withdraw",
            Op::Transfer { .. } => "transfer",
            Op::IncAllowance { .. } => "inc_allowance",
            Op::DecAllowance { .. } => "dec_allowance",
            Op::TransferFrom { .. } => "transfer_from",
            Op::BurnFrom { .. } => "burn_from",
            Op::Claim { .. } => "claim_rewards",
            Op::CheckSlashing { .. } => "check_slashing",
            Op::UpdateIndex { .. } => "update_global_index",
            Op::Redelegations { .. } => "redelegations",
            Op::AddValidator { .. } => "add_validator",
            Op::RemoveValidator { .. } => "remove_validator",
            Op::Raw { .. } => "raw",
        }
    }

    pub fn signer(&self) -> &str {
        match self {
            Op::Bond { user, .. } | Op::BondStSei { user, .. } | Op::Withdraw { user, .. } | Op::Claim { user, .. } => user,
            Op::Send { from, .. } | Op::Transfer { from, .. } => from,
            Op::SendFrom { spender, .. } | Op::TransferFrom { spender, .. } | Op::BurnFrom { spender, .. } => spender,
            Op::IncAllowance { owner, .. } | Op::DecAllowance { owner, .. } => owner,
            Op::CheckSlashing { sender, .. }
            | Op::UpdateIndex { sender }
            | Op::Redelegations { sender, .. }
            | Op::AddValidator { sender, .. }
            | Op::RemoveValidator { sender, .. } => sender,
            Op::Raw { tx, .. } => &tx.sender,
        }
    }

    pub fn to_tx(&self) -> Tx {
        use basset::hub::ExecuteMsg as H;
        use cw20::Cw20ExecuteMsg as C;
        match self {
            Op::Bond { user, amount } => Tx::new(user, HUB, &H::Bond {}, coin(*amount)),
            Op::BondStSei { user, amount } => Tx::new(user, HUB, &H::BondForStSei {}, coin(*amount)),
            Op::Send { tok, from, to, amount, hook } => Tx::new(
                from,
                tok.addr(),
                &C::Send { contract: to.clone(), amount: *amount, msg: hook_bin(*hook) },
                vec![],
            ),
            Op::SendFrom { tok, spender, owner, to, amount, hook } => Tx::new(
                spender,
                tok.addr(),
                &C::SendFrom { owner: owner.clone(), contract: to.clone(), amount: *amount, msg: hook_bin(*hook) },
                vec![],
            ),
            Op::Withdraw { user, attach } => Tx::new(user, HUB, &H::WithdrawUnbonded {}, coin(*attach)),
            Op::Transfer { tok, from, to, amount } => {
                Tx::new(from, tok.addr(), &C::Transfer { recipient: to.clone(), amount: *amount }, vec![])
            }
            Op::IncAllowance { tok, owner, spender, amount, exp } => Tx::new(
                owner,
                tok.addr(),
                &C::IncreaseAllowance { spender: spender.clone(), amount: *amount, expires: exp.to_msg() },
                vec![],
            ),
            Op::DecAllowance { tok, owner, spender, amount, exp } => Tx::new(
                owner,
                tok.addr(),
                &C::DecreaseAllowance { spender: spender.clone(), amount: *amount, expires: exp.to_msg() },
                vec![],
            ),
            Op::TransferFrom { tok, spender, owner, to, amount } => Tx::new(
                spender,
                tok.addr(),
                &C::TransferFrom { owner: owner.clone(), recipient: to.clone(), amount: *amount },
                vec![],
            ),
            Op::BurnFrom { tok, spender, owner, amount } => {
                Tx::new(spender, tok.addr(), &C::BurnFrom { owner: owner.clone(), amount: *amount }, vec![])
            }
            Op::Claim { user, recipient } => Tx::new(
                user,
                REWARD,
                &basset::reward::ExecuteMsg::ClaimRewards { recipient: recipient.clone() },
                vec![],
            ),
            Op::CheckSlashing { sender, attach } => Tx::new(sender, HUB, &H::CheckSlashing {}, coin(*attach)),
            Op::UpdateIndex { sender } => Tx::new(sender, HUB, &H::UpdateGlobalIndex { airdrop_hooks: None }, vec![]),
            Op::Redelegations { sender, validator } => Tx::new(
                sender,
                REGISTRY,
                &basset_sei_validators_registry::msg::ExecuteMsg::Redelegations { address: validator.clone() },
                vec![],
            ),
            Op::AddValidator { sender, validator } => Tx::new(
                sender,
                REGISTRY,
                &basset_sei_validators_registry::msg::ExecuteMsg::AddValidator {
                    validator: basset_sei_validators_registry::registry::Validator { address: validator.clone() },
                },
                vec![],
            ),
            Op::RemoveValidator { sender, validator } => Tx::new(
                sender,
                REGISTRY,
                &basset_sei_validators_registry::msg::ExecuteMsg::RemoveValidator { address: validator.clone() },
                vec![],
            ),
            Op::Raw { tx, .. } => tx.clone(),
        }
    }
}

// ------------------------------------------------------- admin message helpers

pub fn hub_update_params(
    sender: &str,
    epoch_period: Option<u64>,
    unbonding_period: Option<u64>,
    peg_recovery_fee: Option<Decimal>,
    er_threshold: Option<Decimal>,
    paused: Option<bool>,
    reward_denom: Option<String>,
) -> Op {
    Op::Raw {
        tag: "hub_update_params".into(),
        tx: Tx::new(
            sender,
            HUB,
            &basset::hub::ExecuteMsg::UpdateParams { epoch_period, unbonding_period, peg_recovery_fee, er_threshold, paused, reward_denom },
            vec![],
        ),
    }
}

pub fn raw<T: Serialize>(tag: &str, sender: &str, contract: &str, msg: &T, funds: Vec<Coin>) -> Op {
    Op::Raw { tag: tag.into(), tx: Tx::new(sender, contract, msg, funds) }
}

// ---------------------------------------------------------- environment events

#[derive(Clone, Debug, PartialEq, Serialize, Deserialize)]
pub enum EnvEv {
    /// pending staking reward for the hub's delegation on `validator`
    Reward { validator: String, denom: String, amount: Uint128 },
    /// slash `validator` by ppm/1e6 ; `unbonding` = also un-matured unbonding entries
    Slash { validator: String, ppm: u32, unbonding: bool },
    /// unsolicited bank transfer (minted by a faucet)
    Donate { to: String, denom: String, amount: Uint128 },
    BlockRedelegation { validator: String, on: bool },
    /// the validator leaves (on) / rejoins (off) the bonded set; delegations are untouched
    Jail { validator: String, on: bool },
    NewChainValidator { name: String },
    SwapMode(SwapMode),
    OracleMode(OracleMode),
    OracleRate { atomics: Uint128, slip_ppm: i64 },
}

impl EnvEv {
    pub fn name(&self) -> &'static str {
        match self {
            EnvEv::Reward { .. } => "reward_accrual",
            EnvEv::Slash { unbonding: false, .. } => "slash_bonded",
            EnvEv::Slash { unbonding: true, .. } => "slash_unbonding",
            EnvEv::Donate { .. } => "donation",
            EnvEv::BlockRedelegation { .. } => "redelegation_blocked",
            EnvEv::Jail { .. } => "validator_jailed",
            EnvEv::NewChainValidator { .. } => "validator_churn",
            EnvEv::SwapMode(_) => "swap_fault",
            EnvEv::OracleMode(_) => "oracle_fault",
            EnvEv::OracleRate { .. } => "price_jump",
        }
    }
}

#[derive(Clone, Debug, PartialEq, Serialize, Deserialize)]
pub enum Step {
    /// start a new block `dt` seconds after the previous one (maturity is processed first)
    Block { dt: u64 },
    Env(EnvEv),
    Tx {
        op: Op,
        /// injected out-of-gas abort after this many dispatched messages
        #[serde(default, skip_serializing_if = "Option::is_none")]
        abort_at: Option<usize>,
        /// how the transaction reached the chain: "", "dup", "delayed", "reordered"
        #[serde(default, skip_serializing_if = "String::is_empty")]
        via: String,
    },
    /// serialise the world to bytes and rebuild it (only durable state survives)
    Restart,
    /// relational / matrix check on forks of the current world
    Fork { kind: String, seed: u64 },
}
