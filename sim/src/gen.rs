//! Seeded generator: swarm configuration, workload, clock, environment events and
//! transaction-level faults. Everything is drawn from one PRNG; the product is an
//! explicit list of `Step`s (the trace), so replay never needs the generator.

use crate::chain::*;
use crate::deploy::{default_cfg, Cfg, TokenWorld};
use crate::ops::*;
use crate::rng::Rng;
use crate::sim::Sim;
use cosmwasm_std::{Decimal, Uint128};
use std::str::FromStr;

pub const CAP: u128 = 1_000_000_000_000_000_000; // E1: 1e18

#[derive(Clone, Debug)]
pub struct Profile {
    pub name: &'static str,
    /// weights of the op categories, see `OPS`
    pub w: [u32; N_OPS],
    /// weights of env events: reward, slash_bonded, slash_unbonding, donation, block_redelegation, swap/oracle fault, price jump, new validator
    pub env: [u32; 8],
    pub env_per_block_pct: u32,
    pub tx_fault_pct: u32,
    pub len: (u32, u32),
    /// fork kinds and the per-block percentage with which one is inserted
    pub forks: Vec<(&'static str, u32)>,
    pub token_world_pct: u32,
    pub legacy_pct: u32,
    pub admin_chaos: bool,
    /// bias towards slashed (below-peg) states
    pub slash_first: bool,
    pub dust_pct: u32,
    /// thorough tier, every third run: larger deployment, history several times longer and
    /// a per-run random reweighting of the operation and environment mix (swarm)
    pub deep: bool,
    /// percentage of runs that start with a long prelude of one-unit unbonds, one per epoch
    /// (more than 255 batches: history keys, paging and cursors beyond one byte / one page)
    pub long_history_pct: u32,
}

pub const N_OPS: usize = 20;
pub const OPS: [&str; N_OPS] = [
    "bond", "bond_stsei", "unbond_b", "unbond_st", "convert_b2st", "convert_st2b", "withdraw", "transfer", "send_sink", "allowance",
    "from_ops", "unbond_send_from", "claim", "check_slashing", "update_index", "validator_churn", "admin_params", "pause_cycle", "intruder", "withdraw_stranger",
];

fn base_profile(name: &'static str) -> Profile {
    Profile {
        name,
        w: [14, 10, 10, 8, 4, 4, 12, 4, 1, 3, 3, 2, 4, 2, 8, 2, 2, 1, 1, 1],
        env: [10, 3, 3, 2, 1, 1, 1, 1],
        env_per_block_pct: 35,
        tx_fault_pct: 10,
        len: (30, 160),
        forks: vec![],
        token_world_pct: 0,
        legacy_pct: 0,
        admin_chaos: false,
        slash_first: false,
        dust_pct: 12,
        deep: false,
        long_history_pct: 0,
    }
}

pub fn profile_for(prop: &str) -> Profile {
    let mut p = base_profile("full");
    match prop {
        "C01" => {
            p.name = "c01";
            p.long_history_pct = 2;
            p.w = [12, 10, 14, 12, 3, 3, 22, 2, 0, 2, 1, 4, 1, 2, 3, 1, 1, 1, 0, 3];
            p.env = [4, 3, 8, 5, 2, 0, 0, 0];
            p.forks = vec![("c01_order", 6)];
        }
        "C02" => {
            p.name = "c02";
            p.w = [16, 12, 10, 9, 5, 5, 8, 1, 0, 1, 1, 1, 1, 5, 8, 8, 1, 1, 0, 1];
            p.env = [8, 8, 4, 3, 2, 0, 0, 3];
        }
        "C03" | "C04" => {
            p.name = "c03_c04";
            p.w = [14, 12, 10, 10, 8, 8, 8, 2, 0, 1, 2, 2, 1, 4, 8, 3, 2, 1, 0, 1];
            p.env = [8, 6, 4, 3, 2, 0, 0, 1];
        }
        "C05" => {
            p.name = "c05";
            p.w = [14, 8, 14, 6, 14, 12, 6, 1, 0, 1, 1, 2, 0, 3, 3, 1, 4, 1, 0, 0];
            p.env = [3, 12, 3, 1, 2, 0, 0, 0];
            p.slash_first = true;
        }
        "C06" => {
            p.name = "c06";
            p.w = [12, 12, 12, 12, 4, 4, 14, 1, 0, 1, 1, 2, 0, 8, 3, 2, 0, 1, 0, 1];
            p.env = [2, 12, 12, 3, 2, 0, 0, 1];
        }
        "C07" => {
            p.name = "c07";
            p.long_history_pct = 3;
            p.w = [12, 12, 14, 14, 3, 3, 10, 3, 1, 6, 3, 12, 0, 1, 2, 1, 1, 1, 2, 2];
            p.tx_fault_pct = 25;
        }
        "C08" => {
            p.name = "c08";
            p.long_history_pct = 1;
            p.w = [10, 10, 16, 14, 2, 2, 20, 1, 0, 1, 0, 3, 0, 1, 2, 1, 3, 1, 0, 3];
            p.env = [2, 2, 3, 2, 2, 0, 0, 0];
            p.len = (40, 220);
        }
        "C09" => {
            p.name = "c09";
            p.env = [8, 5, 5, 2, 1, 6, 3, 1];
            p.forks = vec![("c09_exits", 4), ("c09_faults", 5)];
            p.len = (20, 90);
        }
        "C10" => {
            p.name = "c10";
            p.w[16] = 3;
            p.w[18] = 6;
            p.forks = vec![("c10_matrix", 6)];
            p.admin_chaos = true;
            p.len = (15, 70);
        }
        "C11" => {
            p.name = "c11";
            p.forks = vec![("c11_matrix", 5), ("c11_transparency", 5)];
            p.w[17] = 5;
            p.legacy_pct = 30;
            p.len = (15, 70);
        }
        "C12" | "C13" => {
            p.name = "c12_c13";
            p.w = [16, 12, 12, 10, 2, 2, 6, 1, 0, 0, 0, 1, 0, 2, 8, 16, 0, 1, 0, 0];
            p.env = [8, 8, 3, 1, 5, 0, 0, 5];
        }
        "C14" | "C15" | "C16" => {
            p.name = "c14_c16";
            p.w = [18, 4, 8, 2, 5, 5, 3, 10, 4, 6, 8, 3, 14, 1, 14, 1, 3, 1, 0, 0];
            p.env = [16, 2, 1, 3, 2, 0, 2, 0];
            p.forks = vec![("c15_split", 3), ("c15_relational", 3)];
        }
        "C17" | "C19" => {
            p.name = "c17_c19";
            p.w = [12, 12, 5, 5, 3, 3, 3, 2, 0, 0, 0, 1, 3, 2, 26, 4, 4, 1, 0, 0];
            p.env = [24, 3, 1, 4, 1, 0, 4, 1];
        }
        "C18" => {
            p.name = "c18";
            p.w = [10, 10, 5, 5, 3, 3, 2, 12, 6, 14, 18, 5, 1, 1, 2, 0, 0, 2, 2, 0];
            p.token_world_pct = 50;
            p.tx_fault_pct = 20;
        }
        "C20" => {
            p.name = "c20";
            p.forks = vec![("c20_instantiate", 4)];
            p.w[16] = 20;
            p.admin_chaos = true;
            p.tx_fault_pct = 20;
            p.len = (20, 90);
        }
        _ => {}
    }
    p
}

fn dec_choice(rng: &mut Rng, xs: &[&str]) -> String {
    rng.pick(xs).to_string()
}

pub fn gen_cfg(rng: &mut Rng, p: &Profile, fault_free: bool) -> Cfg {
    let mut c = default_cfg();
    c.users = rng.range(2, 8) as usize;
    c.chain_validators = rng.range(1, 6) as usize;
    c.registered_validators = rng.range(1, (c.chain_validators as u64).min(5)) as usize;
    // a minority of deployments: validator sets beyond ten, upper-case validator addresses
    if rng.chance(1, 12) {
        c.chain_validators = rng.range(9, 14) as usize;
        c.registered_validators = rng.range(8, c.chain_validators as u64) as usize;
    }
    c.upper_validators = rng.chance(1, 8);
    if p.deep {
        c.users = rng.range(6, 16) as usize;
        c.chain_validators = rng.range(3, 12) as usize;
        c.registered_validators = rng.range(2, (c.chain_validators as u64).min(10)) as usize;
    }
    c.epoch_period = *rng.pick(&[1u64, 5, 30, 3600]);
    c.unbonding_period = match rng.below(4) {
        0 => c.epoch_period + 1,
        1 => 3 * c.epoch_period,
        2 => 10 * c.epoch_period,
        _ => 1_814_400,
    };
    c.genesis_time = c.unbonding_period.max(1) + rng.range(0, 1_000_000);
    c.peg_recovery_fee = dec_choice(rng, &["0", "0.001", "0.005", "0.05", "0.5", "1"]);
    c.er_threshold = dec_choice(rng, &["0", "0.9", "0.99", "1", "1", "1.5"]);
    // keeper rates that trip the known zero-transfer finding (0, 1, dust) are a minority
    c.keeper_rate = match rng.below(20) {
        0 => "0".to_string(),
        1 => "1".to_string(),
        2 => "0.000000000000000001".to_string(),
        3..=8 => "0.05".to_string(),
        9..=12 => "0.5".to_string(),
        _ => Decimal::from_ratio(rng.range(1, 999) as u128, 1000u128).to_string(),
    };
    // oracle price log-uniform in [1e-9, 1e9]
    let e = rng.range(0, 18) as u32;
    let mant = rng.range(1, 9) as u128;
    c.oracle_rate_atomics = Uint128::new(mant * 10u128.pow(9 + e));
    c.swap_slip_ppm = match rng.below(4) {
        0 => 0,
        1 => -(rng.range(1, 30_000) as i64),
        2 => rng.range(1, 30_000) as i64,
        _ => -3000,
    };
    c.extra_price_atomics = Uint128::new(rng.range(1, 50) as u128 * 10u128.pow(17));
    c.amount_scale = if rng.chance(p.dust_pct as u64, 100) { 0 } else { *rng.pick(&[1u8, 2, 2, 2, 3]) };
    c.user_funds = Uint128::new(match c.amount_scale {
        0 => rng.range(20, 400) as u128,
        1 => rng.range(1_000, 100_000) as u128,
        2 => 10u128.pow(rng.range(9, 13) as u32),
        _ => CAP / (4 * c.users as u128),
    });
    if !fault_free {
        c.reverse_delegation_order = rng.chance(1, 3);
        c.swap_extra_round_down = rng.chance(1, 4);
    }
    if rng.chance(p.legacy_pct as u64, 100) {
        let n = rng.range(1, 4);
        for i in 0..n {
            let u = c.user(rng.below(c.users as u64) as usize);
            if !c.legacy_wait.iter().any(|x| x.0 == u) {
                c.legacy_wait.push((u, 0, Uint128::new(rng.range(1, 1000) as u128 + i as u128)));
            }
        }
        // lists around and beyond the hub's default migration page (1000 entries)
        if !c.legacy_wait.is_empty() && rng.chance(1, 4) {
            let n = c.legacy_wait.len() as u64;
            c.legacy_bulk = match rng.below(6) {
                0 => 999 - n,
                1 => 1000 - n,
                2 => 1001 - n,
                3 => 1002 - n,
                4 => rng.range(1003, 2200),
                _ => rng.range(10, 998),
            } as u32;
        }
    }
    if rng.chance(p.token_world_pct as u64, 100) {
        let mk = |rng: &mut Rng, users: usize| -> Vec<(String, Uint128)> {
            let n = rng.range(0, 6);
            let mut v: Vec<(String, Uint128)> = vec![];
            for _ in 0..n {
                let mut a = format!("user{}", rng.below(users as u64));
                if !v.is_empty() && rng.chance(3, 10) {
                    a = v[rng.below(v.len() as u64) as usize].0.clone(); // repeated address
                    if rng.chance(1, 3) {
                        a = a.to_uppercase(); // case variant of the same account
                    }
                }
                let repeated = v.iter().any(|(x, _)| x.eq_ignore_ascii_case(&a));
                // a repeated address sometimes comes with an empty row
                let amount = if repeated && rng.chance(1, 3) { 0 } else { rng.log_uniform(CAP / 8) };
                v.push((a, Uint128::new(amount)));
            }
            v
        };
        c.token_world = Some(TokenWorld { bsei_initial: mk(rng, c.users), stsei_initial: mk(rng, c.users) });
    }
    c
}

pub struct Gen {
    pub rng: Rng,
    pub p: Profile,
    pub fault_free: bool,
    pub enabled_faults: [bool; 6], // reorder, delay, drop, duplicate, abort, restart
    pub delayed: Vec<(u64, Step)>, // (release at block count, step)
    pub blocks: u64,
    pub target_len: u32,
    pub emitted: u32,
    pub slashed_once: bool,
    pub paused_by_gen: bool,
    pub prelude_left: u32,
}

impl Gen {
    pub fn new(seed: u64, p: Profile, fault_free: bool) -> Gen {
        let mut rng = Rng::new(seed);
        let mut enabled = [false; 6];
        if !fault_free {
            for e in enabled.iter_mut() {
                *e = rng.chance(1, 2);
            }
        }
        let mut target_len = rng.range(p.len.0 as u64, p.len.1 as u64) as u32;
        let mut p = p;
        if p.deep {
            target_len = rng.range(p.len.0 as u64 * 3, p.len.1 as u64 * 4) as u32;
            for (i, w) in p.w.iter_mut().enumerate() {
                let f = *rng.pick(&[0u32, 1, 1, 1, 2, 4]);
                // bonding stays possible in every run
                *w *= if i <= 1 { f.max(1) } else { f };
            }
            for e in p.env.iter_mut() {
                *e *= *rng.pick(&[0u32, 1, 1, 2, 4]);
            }
            p.env_per_block_pct = *rng.pick(&[10u32, 35, 35, 60]);
            p.tx_fault_pct = *rng.pick(&[0u32, 10, 10, 30]);
        }
        let prelude_left = if p.long_history_pct > 0 && rng.chance(p.long_history_pct as u64, 100) { rng.range(258, 330) as u32 } else { 0 };
        Gen { rng, p, fault_free, enabled_faults: enabled, delayed: vec![], blocks: 0, target_len, emitted: 0, slashed_once: false, paused_by_gen: false, prelude_left }
    }

    pub fn done(&self) -> bool {
        self.emitted >= self.target_len
    }

    fn amount(&mut self, sim: &Sim, max: u128) -> u128 {
        if max == 0 {
            return 0;
        }
        let r = &mut self.rng;
        if r.chance(1, 10) {
            return match r.below(5) {
                0 => 1,
                1 => 2.min(max),
                2 => max,
                3 => max.saturating_sub(1).max(1),
                _ => (max / 2).max(1),
            };
        }
        let hi = match sim.cfg.amount_scale {
            0 => 20,
            1 => 1_000,
            2 => 1_000_000_000_000,
            _ => CAP / 16,
        };
        r.log_uniform(hi.min(max).max(1)).min(max)
    }

    /// amounts around the peg gap (C05)
    fn gap_amount(&mut self, sim: &Sim, max: u128) -> Option<u128> {
        let h = sim.obs.hub.as_ref()?;
        let s = h.state.as_ref()?;
        let claims = sim.obs.t(Tok::B)?.supply + h.batch.requested_bsei_with_fee.u128();
        let gap = claims.checked_sub(s.total_bond_bsei_amount.u128())?;
        if gap == 0 || max == 0 {
            return None;
        }
        let c = match self.rng.below(6) {
            0 => gap.saturating_sub(1).max(1),
            1 => gap,
            2 => gap + 1,
            3 => gap * 2,
            4 => (gap / 10).max(1),
            _ => claims,
        };
        Some(c.min(max).max(1))
    }

    fn user(&mut self, sim: &Sim) -> String {
        sim.cfg.user(self.rng.below(sim.cfg.users as u64) as usize)
    }

    fn holder(&mut self, sim: &Sim, tok: Tok) -> Option<(String, u128)> {
        let t = sim.obs.t(tok)?;
        let users: Vec<(String, u128)> = t.bal.iter().filter(|(a, b)| a.starts_with("user") && **b > 0).map(|(a, b)| (a.clone(), *b)).collect();
        if users.is_empty() {
            return None;
        }
        Some(self.rng.pick(&users).clone())
    }

    fn e1_bond_ok(&self, sim: &Sim, tok: Tok, pay: u128) -> bool {
        let h = match sim.obs.hub.as_ref().and_then(|h| h.state.as_ref()) {
            Some(s) => s,
            None => return true,
        };
        let r = match tok {
            Tok::B => h.bsei_exchange_rate,
            Tok::St => h.stsei_exchange_rate,
        };
        let sup = sim.obs.t(tok).map(|t| t.supply).unwrap_or(0);
        let booked = h.total_bond_bsei_amount.u128() + h.total_bond_stsei_amount.u128();
        match crate::refmath::div_rate(pay, r.atomics().u128()) {
            Some(m) => m.saturating_add(sup) <= CAP && booked.saturating_add(pay) <= CAP,
            None => false,
        }
    }

    pub fn gen_op(&mut self, sim: &Sim) -> Option<Op> {
        // outside the pause-focused family a pause is short: a paused hub is un-paused again
        // after three operations on average (queries and the checks on them keep running)
        if self.p.name != "c11" && self.p.w[17] > 0 && sim.obs.hub.as_ref().map(|h| h.params.paused.unwrap_or(false) && h.legacy_wait_entries == 0).unwrap_or(false) && self.rng.chance(1, 3) {
            return self.gen_op_cat(sim, 17);
        }
        // a young pool holding fewer base units than it has validators: sometimes take a staked
        // validator out right then (the even share of what has to move is below one unit)
        if self.p.name == "c12_c13" && sim.cfg.token_world.is_none() {
            let dels = sim.w.delegations_of(HUB);
            let total: u128 = dels.iter().map(|d| d.1).sum();
            if let Some(reg) = sim.obs.registry.as_ref() {
                let staked: Vec<String> = dels.iter().filter(|d| d.1 > 0 && reg.iter().any(|v| v.address == d.0)).map(|d| d.0.clone()).collect();
                if total > 0 && reg.len() >= 2 && total < reg.len() as u128 && !staked.is_empty() && self.rng.chance(1, 3) {
                    return Some(Op::RemoveValidator { sender: OWNER.into(), validator: self.rng.pick(&staked).clone() });
                }
            }
        }
        let cat = self.rng.pick_weighted(&self.p.w);
        self.gen_op_cat(sim, cat)
    }

    pub fn gen_op_cat(&mut self, sim: &Sim, cat: usize) -> Option<Op> {
        let tw = sim.cfg.token_world.is_some();
        if tw && !matches!(cat, 7 | 8 | 9 | 10 | 18) {
            return None;
        }
        match cat {
            0 | 1 => {
                let u = self.user(sim);
                let have = sim.w.balance(&u, DENOM);
                let mut a = self.amount(sim, have);
                let tok = if cat == 0 { Tok::B } else { Tok::St };
                if cat == 0 && self.p.slash_first && self.rng.chance(1, 2) {
                    if let Some(g) = self.gap_amount(sim, have) {
                        a = g;
                    }
                }
                if a == 0 || !self.e1_bond_ok(sim, tok, a) {
                    return None;
                }
                // odd payments: another coin instead of / next to the staking coin, or none at all
                if self.rng.chance(1, 14) {
                    let other = *self.rng.pick(&[REWARD_DENOM, EXTRA_SWAP_DENOM]);
                    let ob = sim.w.balance(&u, other);
                    let oa = if ob > 0 { self.rng.range(1, ob.min(1_000_000) as u64) as u128 } else { 0 };
                    let mut funds = match self.rng.below(4) {
                        0 => vec![],
                        1 => vec![cosmwasm_std::Coin::new(oa, other)],
                        2 => vec![cosmwasm_std::Coin::new(a, DENOM), cosmwasm_std::Coin::new(oa, other)],
                        _ => vec![cosmwasm_std::Coin::new(oa, other), cosmwasm_std::Coin::new(a, DENOM)],
                    };
                    funds.retain(|c| !c.amount.is_zero());
                    return Some(if cat == 0 { raw("bond_odd_funds", &u, HUB, &basset::hub::ExecuteMsg::Bond {}, funds) } else { raw("bond_stsei_odd_funds", &u, HUB, &basset::hub::ExecuteMsg::BondForStSei {}, funds) });
                }
                Some(if cat == 0 { Op::Bond { user: u, amount: a.into() } } else { Op::BondStSei { user: u, amount: a.into() } })
            }
            2 | 3 | 4 | 5 => {
                let tok = if cat == 2 || cat == 4 { Tok::B } else { Tok::St };
                let (u, b) = self.holder(sim, tok)?;
                let mut a = self.amount(sim, b);
                if tok == Tok::B && self.p.slash_first && self.rng.chance(1, 2) {
                    if let Some(g) = self.gap_amount(sim, b) {
                        a = g;
                    }
                }
                let hook = if cat <= 3 { Hook::Unbond } else { Hook::Convert };
                Some(Op::Send { tok, from: u, to: HUB.into(), amount: a.into(), hook })
            }
            6 => {
                // a claimant if there is one
                let h = sim.obs.hub.as_ref()?;
                let claimants: Vec<String> = h.requests.keys().cloned().collect();
                let u = if !claimants.is_empty() && self.rng.chance(9, 10) { self.rng.pick(&claimants).clone() } else { self.user(sim) };
                let attach = if self.rng.chance(1, 25) { self.amount(sim, sim.w.balance(&u, DENOM).min(1000)) } else { 0 };
                Some(Op::Withdraw { user: u, attach: attach.into() })
            }
            7 => {
                let tok = if self.rng.chance(2, 3) { Tok::B } else { Tok::St };
                let (u, b) = self.holder(sim, tok).or_else(|| if tw { Some((self.user(sim), 10)) } else { None })?;
                // mostly other users; sometimes oneself or one of the contract addresses
                let to = match self.rng.below(24) {
                    0 | 1 => u.clone(),
                    2 => REWARD.to_string(),
                    3 => DISPATCHER.to_string(),
                    4 => HUB.to_string(),
                    5 => if tok == Tok::B { BSEI.to_string() } else { STSEI.to_string() },
                    _ => self.user(sim),
                };
                let a = if self.rng.chance(1, 15) { b + 1 } else { self.amount(sim, b) };
                Some(Op::Transfer { tok, from: u, to, amount: a.into() })
            }
            8 => {
                let tok = if self.rng.chance(2, 3) { Tok::B } else { Tok::St };
                let (u, b) = self.holder(sim, tok)?;
                let a = self.amount(sim, b);
                Some(Op::Send { tok, from: u, to: SINK.into(), amount: a.into(), hook: Hook::Nop })
            }
            9 => {
                let tok = if self.rng.chance(2, 3) { Tok::B } else { Tok::St };
                let owner = self.user(sim);
                let mut spender = self.user(sim);
                if spender == owner && self.rng.chance(9, 10) {
                    spender = INTRUDER.to_string();
                }
                // mostly within the owner's balance (so that an allowance can be used up), sometimes far above
                let ob = sim.obs.t(tok).and_then(|t| t.bal.get(&owner).copied()).unwrap_or(0);
                let a = if ob > 0 && self.rng.chance(2, 3) { self.amount(sim, ob) } else { self.amount(sim, CAP / 8) };
                let exp = match self.rng.below(9) {
                    0 | 8 => Exp::Keep,
                    1 => Exp::AtHeight(sim.w.height + self.rng.range(0, 6)),
                    2 => Exp::AtTime(sim.w.time + self.rng.range(0, sim.cfg.epoch_period * 3 + 3)),
                    3 => Exp::AtHeight(sim.w.height.saturating_sub(1)),
                    4 => Exp::AtTime(sim.w.time),
                    _ => Exp::Never,
                };
                if self.rng.chance(3, 4) {
                    Some(Op::IncAllowance { tok, owner, spender, amount: a.into(), exp })
                } else {
                    // a quarter of the decreases only change the expiration (amount 0)
                    let a = if self.rng.chance(1, 4) { 0 } else { a };
                    Some(Op::DecAllowance { tok, owner, spender, amount: a.into(), exp })
                }
            }
            10 | 11 => {
                // allowance based operation along an existing grant when possible
                let pairs: Vec<(usize, String, String)> = sim.allow_pairs.iter().cloned().collect();
                let (ti, owner, spender) = if !pairs.is_empty() && self.rng.chance(9, 10) { self.rng.pick(&pairs).clone() } else { (self.rng.below(2) as usize, self.user(sim), INTRUDER.to_string()) };
                let tok = if ti == 0 { Tok::B } else { Tok::St };
                let b = sim.obs.t(tok).and_then(|t| t.bal.get(&owner).copied()).unwrap_or(0);
                let granted = sim.obs.t(tok).and_then(|t| t.allow.get(&(owner.clone(), spender.clone())).map(|a| a.allowance.u128())).unwrap_or(0);
                let lim = b.min(granted);
                let a = match self.rng.below(8) {
                    0 => granted + 1,
                    1 => b + 1,
                    2 | 3 if granted > 0 => granted.min(b.max(1)), // use the allowance up exactly
                    _ => self.amount(sim, lim.max(1)),
                };
                if cat == 11 {
                    let hook = if self.rng.chance(3, 4) { Hook::Unbond } else { Hook::Convert };
                    if tw {
                        return None;
                    }
                    return Some(Op::SendFrom { tok, spender, owner, to: HUB.into(), amount: a.into(), hook });
                }
                match self.rng.below(3) {
                    0 => Some(Op::TransferFrom { tok, spender, owner, to: self.user(sim), amount: a.into() }),
                    1 => Some(Op::BurnFrom { tok, spender, owner, amount: a.into() }),
                    _ => Some(Op::SendFrom { tok, spender, owner, to: SINK.into(), amount: a.into(), hook: Hook::Nop }),
                }
            }
            12 => {
                let r = sim.obs.reward.as_ref()?;
                let with: Vec<String> = r.accrued.keys().cloned().collect();
                let u = if !with.is_empty() && self.rng.chance(4, 5) { self.rng.pick(&with).clone() } else { self.user(sim) };
                let recipient = if self.rng.chance(1, 4) { Some(self.user(sim)) } else { None };
                Some(Op::Claim { user: u, recipient })
            }
            13 => {
                let s = if self.rng.chance(1, 2) { self.user(sim) } else { INTRUDER.to_string() };
                let attach = if self.rng.chance(1, 10) { self.amount(sim, sim.w.balance(&s, DENOM).min(500)) } else { 0 };
                Some(Op::CheckSlashing { sender: s, attach: attach.into() })
            }
            14 => Some(Op::UpdateIndex { sender: UPDATER.into() }),
            15 => {
                let reg: Vec<String> = sim.obs.registry.as_ref()?.iter().map(|v| v.address.clone()).collect();
                let chain: Vec<String> = sim.w.staking.validators.iter().cloned().collect();
                match self.rng.below(5) {
                    0 | 1 => {
                        // E3: keep the registry non-empty (removal of the last one is still tried sometimes)
                        if reg.len() <= 1 && !self.rng.chance(1, 4) {
                            return None;
                        }
                        // mostly a registered validator; sometimes any chain validator; a removal whose
                        // redelegation was refused is retried (the validator is no longer registered
                        // but still holds stake)
                        let stuck: Vec<String> = sim.w.delegations_of(HUB).into_iter().map(|d| d.0).filter(|v| !reg.contains(v)).collect();
                        let v = if !stuck.is_empty() && self.rng.chance(1, 3) {
                            self.rng.pick(&stuck).clone()
                        } else if self.rng.chance(1, 12) {
                            self.rng.pick(&chain).clone()
                        } else {
                            self.rng.pick(&reg).clone()
                        };
                        Some(Op::RemoveValidator { sender: OWNER.into(), validator: v })
                    }
                    2 | 3 => {
                        let v = self.rng.pick(&chain).clone();
                        Some(Op::AddValidator { sender: OWNER.into(), validator: v })
                    }
                    _ => {
                        // manual redelegation off an unregistered validator that still holds stake
                        let stuck: Vec<String> = sim.w.delegations_of(HUB).into_iter().map(|d| d.0).filter(|v| !reg.contains(v)).collect();
                        let v = if !stuck.is_empty() { self.rng.pick(&stuck).clone() } else { self.rng.pick(&chain).clone() };
                        Some(Op::Redelegations { sender: self.user(sim), validator: v })
                    }
                }
            }
            16 => Some(self.admin_op(sim)),
            17 => {
                let h = sim.obs.hub.as_ref()?;
                let owner = h.config.owner.clone();
                if h.params.paused.unwrap_or(false) {
                    if h.legacy_wait_entries > 0 && self.rng.chance(2, 3) {
                        let limit = if h.legacy_wait_entries > 8 {
                            match self.rng.below(8) {
                                0..=2 => None,
                                3 => Some(1000u32),
                                4 => Some(self.rng.range(1, 1200) as u32),
                                5 => Some(u32::MAX),
                                6 => Some(0),
                                _ => Some(h.legacy_wait_entries as u32 - 1),
                            }
                        } else if self.rng.chance(1, 2) {
                            Some(1u32)
                        } else {
                            None
                        };
                        let s = self.user(sim);
                        Some(raw("migrate_unbond_wait_list", &s, HUB, &basset::hub::ExecuteMsg::MigrateUnbondWaitList { limit }, vec![]))
                    } else {
                        Some(hub_update_params(&owner, None, None, None, None, if self.rng.chance(1, 2) { Some(false) } else { None }, None))
                    }
                } else {
                    Some(hub_update_params(&owner, None, None, None, None, Some(true), None))
                }
            }
            18 => Some(self.intruder_op(sim)),
            19 => Some(Op::Withdraw { user: if self.rng.chance(1, 2) { INTRUDER.into() } else { self.user(sim) }, attach: 0u128.into() }),
            _ => None,
        }
    }

    fn rand_dec(&mut self, allow_out_of_range: bool) -> Decimal {
        let xs = ["0", "0.001", "0.005", "0.05", "0.3", "0.5", "0.9", "0.99", "1"];
        if allow_out_of_range && self.rng.chance(1, 4) {
            return Decimal::from_str(*self.rng.pick(&["1.000000000000000001", "1.5", "2", "340"])).unwrap();
        }
        Decimal::from_str(*self.rng.pick(&xs)).unwrap()
    }

    /// the owner of one contract sends its current configuration again (all values taken from
    /// the contract's own Config answer), with a random subset of the optional fields present
    fn resend_config_op(&mut self, sim: &Sim) -> Option<Op> {
        let mut some = |r: &mut Rng, v: &str| if r.chance(2, 3) { Some(v.to_string()) } else { None };
        match self.rng.below(3) {
            0 => {
                let r = sim.obs.reward.as_ref()?;
                let c = &r.config;
                let owner = sim.obs.owners.get(REWARD).map(|o| o.0.clone()).unwrap_or(OWNER.into());
                Some(raw(
                    "reward_resend_config",
                    &owner,
                    REWARD,
                    &basset::reward::ExecuteMsg::UpdateConfig { hub_contract: some(&mut self.rng, &c.hub_contract), reward_denom: some(&mut self.rng, &c.reward_denom), swap_contract: some(&mut self.rng, &c.swap_contract) },
                    vec![],
                ))
            }
            1 => {
                let d = sim.obs.dispatcher.as_ref()?;
                Some(raw(
                    "dispatcher_resend_config",
                    &d.owner,
                    DISPATCHER,
                    &basset_sei_rewards_dispatcher::msg::ExecuteMsg::UpdateConfig {
                        hub_contract: some(&mut self.rng, &d.hub_contract),
                        bsei_reward_contract: some(&mut self.rng, &d.bsei_reward_contract),
                        stsei_reward_denom: None,
                        bsei_reward_denom: some(&mut self.rng, &d.bsei_reward_denom),
                        krp_keeper_address: some(&mut self.rng, &d.krp_keeper_address),
                        krp_keeper_rate: if self.rng.chance(2, 3) { Some(d.krp_keeper_rate) } else { None },
                    },
                    vec![],
                ))
            }
            _ => {
                let h = sim.obs.hub.as_ref()?;
                let c = &h.config;
                let mut opt = |r: &mut Rng, v: &Option<String>| if r.chance(1, 2) { v.clone() } else { None };
                Some(raw(
                    "hub_resend_config",
                    &c.owner,
                    HUB,
                    &basset::hub::ExecuteMsg::UpdateConfig {
                        rewards_dispatcher_contract: opt(&mut self.rng, &c.reward_dispatcher_contract),
                        validators_registry_contract: opt(&mut self.rng, &c.validators_registry_contract),
                        bsei_token_contract: None,
                        stsei_token_contract: None,
                        airdrop_registry_contract: opt(&mut self.rng, &c.airdrop_registry_contract),
                        rewards_contract: None,
                        update_reward_index_addr: None,
                    },
                    vec![],
                ))
            }
        }
    }

    /// owner configuration messages. Inside E3 unless the profile runs admin chaos.
    pub fn admin_op(&mut self, sim: &Sim) -> Op {
        let chaos = self.p.admin_chaos;
        let opt = |r: &mut Rng| r.chance(1, 2);
        let hub_owner = sim.obs.hub.as_ref().map(|h| h.config.owner.clone()).unwrap_or(OWNER.into());
        let disp_owner = sim.obs.dispatcher.as_ref().map(|d| d.owner.clone()).unwrap_or(OWNER.into());
        let paused = sim.obs.hub.as_ref().and_then(|h| h.params.paused).unwrap_or(false);
        // a repeated configuration message: the values already in force, any subset of fields
        if self.rng.chance(1, if chaos { 8 } else { 4 }) {
            if let Some(op) = self.resend_config_op(sim) {
                return op;
            }
        }
        match self.rng.below(if chaos { 9 } else { 4 }) {
            0 | 1 => {
                let ep = if opt(&mut self.rng) { Some(*self.rng.pick(&[1u64, 5, 30, 3600])) } else { None };
                let fee = if opt(&mut self.rng) { Some(self.rand_dec(true)) } else { None };
                let thr = if opt(&mut self.rng) { Some(self.rand_dec(chaos)) } else { None };
                let rd = if chaos && self.rng.chance(1, 4) { Some(REWARD_DENOM.to_string()) } else { None };
                // keep the pause state: the message must carry it (omitted = cleared)
                let p = if chaos {
                    // every combination of the pause flag with the other fields
                    match self.rng.below(5) {
                        0 => Some(true),
                        1 | 2 => Some(false),
                        _ => None,
                    }
                } else if paused {
                    Some(true)
                } else if self.rng.chance(1, 2) {
                    Some(false)
                } else {
                    None
                };
                hub_update_params(&hub_owner, ep, None, fee, thr, p, rd)
            }
            2 => {
                let rate = if opt(&mut self.rng) || !chaos { Some(self.rand_dec(true)) } else { None };
                let ka = if opt(&mut self.rng) { Some(KEEPER.to_string()) } else { None };
                raw(
                    "dispatcher_update_config",
                    &disp_owner,
                    DISPATCHER,
                    &basset_sei_rewards_dispatcher::msg::ExecuteMsg::UpdateConfig {
                        // chaos: the wiring fields also take other values (re-pointing the dispatcher)
                        hub_contract: if chaos && self.rng.chance(1, 3) { Some(self.rng.pick(&[HUB, HUB, "hub2"]).to_string()) } else { None },
                        bsei_reward_contract: if chaos && self.rng.chance(1, 3) { Some(self.rng.pick(&[REWARD, REWARD, "reward2"]).to_string()) } else { None },
                        stsei_reward_denom: if chaos && self.rng.chance(1, 5) { Some(self.rng.pick(&[DENOM, "USEI", "Usei"]).to_string()) } else { None },
                        bsei_reward_denom: if chaos && self.rng.chance(1, 3) { Some(self.rng.pick(&[REWARD_DENOM, REWARD_DENOM, "uother"]).to_string()) } else { None },
                        krp_keeper_address: ka,
                        krp_keeper_rate: rate,
                    },
                    vec![],
                )
            }
            3 => raw(
                "dispatcher_update_swap_denom",
                &disp_owner,
                DISPATCHER,
                // any denom, listed or not: re-adding a listed denom and removing an unlisted
                // one are legal owner messages (the list is a set as far as behaviour goes)
                &basset_sei_rewards_dispatcher::msg::ExecuteMsg::UpdateSwapDenom { swap_denom: if chaos { self.rng.pick(&[EXTRA_SWAP_DENOM, JUNK_DENOM, "uother", DENOM, REWARD_DENOM, EXTRA_SWAP_DENOM]).to_string() } else { self.rng.pick(&[EXTRA_SWAP_DENOM, DENOM, REWARD_DENOM]).to_string() /* E3: only denoms the swap contract trades */ }, is_add: self.rng.chance(if chaos { 1 } else { 3 }, if chaos { 2 } else { 4 }) },
                vec![],
            ),
            4 => raw("dispatcher_update_swap_contract", &disp_owner, DISPATCHER, &basset_sei_rewards_dispatcher::msg::ExecuteMsg::UpdateSwapContract { swap_contract: SWAP.into() }, vec![]),
            5 => raw("dispatcher_update_oracle_contract", &disp_owner, DISPATCHER, &basset_sei_rewards_dispatcher::msg::ExecuteMsg::UpdateOracleContract { oracle_contract: ORACLE.into() }, vec![]),
            6 => {
                let o = sim.obs.reward.as_ref().map(|r| r.config.owner.clone()).unwrap_or(OWNER.into());
                raw(
                    "reward_update_config",
                    &o,
                    REWARD,
                    &basset::reward::ExecuteMsg::UpdateConfig {
                        // sometimes an address every Api rejects (too short / too long): the whole message must fail
                        hub_contract: if self.rng.chance(1, 6) { Some(self.rng.pick(&["ab", "x", "aaaaaaaaaaaaaaaaaaaaaaaaaaaaaaaaaaaaaaaaaaaaaaaaaaaaaaaaaaaaaaaaaaaaaaaaaaaaaaaaaaaaaaaaaaaaaaaaaaaaaaaaaaaaaaaaaaaaaaaa"]).to_string()) } else if self.rng.chance(1, 2) { Some(HUB.into()) } else { None },
                        reward_denom: if self.rng.chance(1, 2) { Some(REWARD_DENOM.into()) } else { None },
                        swap_contract: if self.rng.chance(1, 2) { Some(SWAP.into()) } else { None },
                    },
                    vec![],
                )
            }
            7 => raw(
                "hub_update_config",
                &hub_owner,
                HUB,
                &basset::hub::ExecuteMsg::UpdateConfig {
                    rewards_dispatcher_contract: if self.rng.chance(1, 3) { Some(DISPATCHER.into()) } else { None },
                    validators_registry_contract: if self.rng.chance(1, 3) { Some(REGISTRY.into()) } else { None },
                    bsei_token_contract: if self.rng.chance(1, 4) { Some(self.rng.pick(&[BSEI, FOREIGN_CW20]).to_string()) } else { None },
                    stsei_token_contract: if self.rng.chance(1, 4) { Some(self.rng.pick(&[STSEI, FOREIGN_CW20]).to_string()) } else { None },
                    airdrop_registry_contract: if self.rng.chance(1, 3) { Some(AIRDROP.into()) } else { None },
                    rewards_contract: if self.rng.chance(1, 3) { Some(REWARD.into()) } else { None },
                    update_reward_index_addr: if self.rng.chance(1, 3) { Some(UPDATER.into()) } else { None },
                },
                vec![],
            ),
            _ => {
                // ownership transfer on a random contract
                let c = *self.rng.pick(&[HUB, DISPATCHER, REWARD, REGISTRY]);
                let msg = if self.rng.chance(1, 2) { serde_json::json!({"set_owner": {"new_owner_addr": self.rng.pick(&["owner2", OWNER, "owner3"]).to_string()}}) } else { serde_json::json!({"accept_ownership": {}}) };
                let s = self.rng.pick(&[OWNER, "owner2", "owner3"]).to_string();
                raw("ownership", &s, c, &msg, vec![])
            }
        }
    }

    pub fn intruder_op(&mut self, sim: &Sim) -> Op {
        use serde_json::json;
        let u = self.user(sim);
        let who = self.rng.pick(&[INTRUDER, u.as_str(), KEEPER]).to_string();
        let b64 = |s: &str| cosmwasm_std::Binary::from(s.as_bytes()).to_base64();
        let cands: Vec<(&str, serde_json::Value)> = vec![
            (HUB, json!({"update_params": {"paused": true}})),
            (HUB, json!({"update_config": {"update_reward_index_addr": who}})),
            (HUB, json!({"bond_rewards": {}})),
            (HUB, json!({"receive": {"sender": who, "amount": "1000", "msg": b64("{\"unbond\":{}}")}})),
            (HUB, json!({"update_global_index": {}})),
            (HUB, json!({"set_owner": {"new_owner_addr": who}})),
            (HUB, json!({"accept_ownership": {}})),
            (DISPATCHER, json!({"dispatch_rewards": {}})),
            (DISPATCHER, json!({"update_config": {"krp_keeper_address": who, "krp_keeper_rate": "1"}})),
            (REWARD, json!({"increase_balance": {"address": who, "amount": "1000000"}})),
            (REWARD, json!({"update_global_index": {}})),
            (REGISTRY, json!({"remove_validator": {"address": "val0"}})),
            (REGISTRY, json!({"add_validator": {"validator": {"address": "val0"}}})),
            (BSEI, json!({"mint": {"recipient": who, "amount": "1000000"}})),
            (STSEI, json!({"mint": {"recipient": who, "amount": "1000000"}})),
            (BSEI, json!({"burn": {"amount": "1"}})),
            (STSEI, json!({"burn": {"amount": "1"}})),
            (FOREIGN_CW20, json!({"send": {"contract": HUB, "amount": "1000", "msg": b64("{\"unbond\":{}}")}})),
        ];
        let (c, m) = self.rng.pick(&cands).clone();
        let sender = if c == FOREIGN_CW20 { INTRUDER.to_string() } else { who };
        let funds = if m.get("bond_rewards").is_some() { vec![cosmwasm_std::Coin::new(100, DENOM)] } else { vec![] };
        raw("intruder", &sender, c, &m, funds)
    }

    /// E1: a reward / donation stays <= 1e12 base units in either reward coin at the current
    /// price, so that deliveries remain <= 1e18 after price jumps and accumulation
    fn e1_reward_cap(&self, sim: &Sim, denom: &str) -> u128 {
        let r = sim.w.ext.oracle_rate_atomics.max(1); // REWARD_DENOM per DENOM, 1e18 = 1
        let base: u128 = 1_000_000_000_000;
        let one = crate::refmath::ONE;
        let cap = if denom == DENOM {
            if r > one { base / (r / one).max(1) } else { base }
        } else if denom == REWARD_DENOM {
            if r < one { base / (one / r).max(1) } else { base }
        } else {
            let p = sim.w.ext.extra_price_atomics.max(1);
            let in_reward = if p > one { base / (p / one).max(1) } else { base };
            if r < one { in_reward / (one / r).max(1) } else { in_reward }
        };
        cap.max(1)
    }

    fn gen_env(&mut self, sim: &Sim) -> Option<EnvEv> {
        let k = self.rng.pick_weighted(&self.p.env);
        let dels = sim.w.delegations_of(HUB);
        match k {
            0 => {
                if dels.is_empty() {
                    return None;
                }
                let v = self.rng.pick(&dels).0.clone();
                let denom = match self.rng.below(10) {
                    0 => REWARD_DENOM,
                    1 => EXTRA_SWAP_DENOM,
                    2 => JUNK_DENOM,
                    _ => DENOM,
                };
                let cap = self.e1_reward_cap(sim, denom);
                let a = if self.rng.chance(1, 8) { (self.rng.range(1, 30) as u128).min(cap) } else { self.amount(sim, cap).max(1) };
                Some(EnvEv::Reward { validator: v, denom: denom.into(), amount: a.into() })
            }
            1 | 2 => {
                if dels.is_empty() && k == 1 {
                    return None;
                }
                let vals: Vec<String> = if k == 1 { dels.iter().map(|d| d.0.clone()).collect() } else { sim.w.staking.validators.iter().cloned().collect() };
                let v = self.rng.pick(&vals).clone();
                let ppm: u32 = match self.rng.below(8) {
                    0 => 100,
                    1 => 10_000,
                    2 => 50_000,
                    3 => 500_000,
                    4 => 999_999,
                    5 => 1_000_000,
                    _ => self.rng.range(1, 300_000) as u32,
                };
                // E4: never slash the hub's total delegated stake to zero
                let total = sim.w.total_delegated(HUB);
                let on_v = sim.w.delegation(HUB, &v);
                let keep = crate::chain::mul_div_floor(on_v, (1_000_000 - ppm) as u128, 1_000_000);
                if total > 0 && total - on_v + keep == 0 {
                    return None;
                }
                self.slashed_once = true;
                Some(EnvEv::Slash { validator: v, ppm, unbonding: k == 2 })
            }
            3 => {
                let to = *self.rng.pick(&[HUB, HUB, DISPATCHER, REWARD, BSEI]);
                let denom = *self.rng.pick(&[DENOM, DENOM, REWARD_DENOM, EXTRA_SWAP_DENOM, JUNK_DENOM]);
                let cap = self.e1_reward_cap(sim, denom);
                let a = self.amount(sim, cap).max(1);
                Some(EnvEv::Donate { to: to.into(), denom: denom.into(), amount: a.into() })
            }
            4 => {
                let vals: Vec<String> = sim.w.staking.validators.iter().cloned().collect();
                let v = self.rng.pick(&vals).clone();
                if self.rng.chance(1, 2) {
                    // jailing: a validator drops out of (or returns to) the bonded set while it
                    // keeps the hub's delegation
                    let on = !sim.w.staking.jailed.contains(&v);
                    return Some(EnvEv::Jail { validator: v, on });
                }
                let on = !sim.w.staking.redelegation_blocked.contains(&v);
                Some(EnvEv::BlockRedelegation { validator: v, on })
            }
            5 => {
                if self.rng.chance(1, 2) {
                    Some(EnvEv::SwapMode(*self.rng.pick(&SWAP_MODES)))
                } else {
                    Some(EnvEv::OracleMode(*self.rng.pick(&ORACLE_MODES)))
                }
            }
            6 => {
                // price jump within three orders of magnitude (E1: reward values stay <= 1e18)
                let cur = sim.w.ext.oracle_rate_atomics;
                let f = 10u128.pow(self.rng.range(0, 3) as u32) * self.rng.range(1, 9) as u128;
                let next = if self.rng.chance(1, 2) { cur.saturating_mul(f) } else { (cur / f).max(1) };
                let next = next.clamp(1_000_000_000, 9_000_000_000_000_000_000_000_000_000);
                Some(EnvEv::OracleRate { atomics: Uint128::new(next), slip_ppm: self.rng.range(0, 20_000) as i64 - 10_000 })
            }
            _ => {
                let n = sim.w.staking.validators.len();
                if n >= 8 {
                    return None;
                }
                Some(EnvEv::NewChainValidator { name: if sim.cfg.upper_validators && n % 2 == 1 { format!("VAL{}", n) } else { format!("val{}", n) } })
            }
        }
    }

    fn gen_dt(&mut self, sim: &Sim) -> u64 {
        let now = sim.w.time;
        let mut cands: Vec<u64> = vec![];
        if let Some(h) = &sim.obs.hub {
            if let Some(s) = &h.raw {
                let b = s.last_unbonded_time + h.params.epoch_period;
                for t in [b.saturating_sub(1), b, b + 1] {
                    if t >= now {
                        cands.push(t - now);
                    }
                }
            }
            for x in h.history.iter().filter(|x| !x.released) {
                let b = x.time + h.params.unbonding_period;
                for t in [b.saturating_sub(1), b, b + 1] {
                    if t >= now {
                        cands.push(t - now);
                    }
                }
            }
        }
        let ep = sim.cfg.epoch_period;
        match self.rng.below(10) {
            0..=3 if !cands.is_empty() => *self.rng.pick(&cands),
            4 => 0,
            5 => 1,
            6 => self.rng.range(1, ep.max(2)),
            7 => ep * self.rng.range(1, 4) + self.rng.range(0, 2),
            8 => sim.cfg.unbonding_period + self.rng.range(0, 2),
            _ => self.rng.range(1, 6),
        }
    }

    /// Next chunk of steps: one block with its environment events and transactions.
    pub fn next_block(&mut self, sim: &Sim) -> Vec<Step> {
        // long-history prelude: one block per epoch, one tiny unbond in each (each closes a batch)
        if self.prelude_left > 0 && sim.cfg.token_world.is_none() {
            self.prelude_left -= 1;
            self.blocks += 1;
            let ep = sim.obs.hub.as_ref().map(|h| h.params.epoch_period).unwrap_or(1);
            let mut steps = vec![Step::Block { dt: ep + 1 }];
            let holder = self.holder(sim, Tok::B).or_else(|| self.holder(sim, Tok::St));
            let tok = if self.holder(sim, Tok::B).is_some() { Tok::B } else { Tok::St };
            let op = match holder {
                Some((u, b)) if b > 0 => Op::Send { tok, from: u, to: HUB.into(), amount: 1u128.into(), hook: Hook::Unbond },
                _ => Op::Bond { user: sim.cfg.user(0), amount: (self.prelude_left as u128 * 4 + 1000).into() },
            };
            steps.push(Step::Tx { op, abort_at: None, via: String::new() });
            return steps;
        }
        let mut steps = vec![];
        self.blocks += 1;
        steps.push(Step::Block { dt: self.gen_dt(sim) });
        if !self.fault_free && self.enabled_faults[5] && self.rng.chance(1, 25) {
            steps.push(Step::Restart);
        }
        // delayed transactions due now
        let due: Vec<Step> = {
            let b = self.blocks;
            let (d, rest): (Vec<_>, Vec<_>) = std::mem::take(&mut self.delayed).into_iter().partition(|x| x.0 <= b);
            self.delayed = rest;
            d.into_iter().map(|x| x.1).collect()
        };
        let tw = sim.cfg.token_world.is_some();
        if !tw && self.rng.chance(self.p.env_per_block_pct as u64, 100) {
            if let Some(ev) = self.gen_env(sim) {
                steps.push(Step::Env(ev));
            }
        }
        if !tw && self.p.slash_first && !self.slashed_once && self.blocks > 3 {
            let dels = sim.w.delegations_of(HUB);
            if dels.len() > 0 && sim.w.total_delegated(HUB) > 1 {
                let v = self.rng.pick(&dels).0.clone();
                steps.push(Step::Env(EnvEv::Slash { validator: v, ppm: self.rng.range(1000, 400_000) as u32, unbonding: false }));
                self.slashed_once = true;
            }
        }
        let n = self.rng.range(1, 4);
        let mut txs: Vec<Step> = due;
        for _ in 0..n {
            if let Some(op) = self.gen_op(sim) {
                let mut st = Step::Tx { op: op.clone(), abort_at: None, via: String::new() };
                if !self.fault_free && self.rng.chance(self.p.tx_fault_pct as u64, 100) {
                    match self.rng.below(4) {
                        0 if self.enabled_faults[1] => {
                            let k = self.rng.range(1, 3);
                            self.delayed.push((self.blocks + k, Step::Tx { op, abort_at: None, via: "delayed".into() }));
                            continue;
                        }
                        1 if self.enabled_faults[2] => {
                            // dropped: never executed
                            txs.push(Step::Tx { op, abort_at: None, via: "drop".into() });
                            continue;
                        }
                        2 if self.enabled_faults[3] => {
                            txs.push(st.clone());
                            st = Step::Tx { op, abort_at: None, via: "dup".into() };
                        }
                        3 if self.enabled_faults[4] => {
                            // out of gas somewhere inside the call tree
                            let (_, out) = crate::wasm::run_tx(&sim.w, &op.to_tx(), None);
                            let nmsg = out.calls.len();
                            if nmsg >= 2 {
                                st = Step::Tx { op, abort_at: Some(self.rng.range(1, nmsg as u64 - 1) as usize), via: String::new() };
                            }
                        }
                        _ => {}
                    }
                }
                txs.push(st);
            }
        }
        if !self.fault_free && self.enabled_faults[0] && txs.len() > 1 && self.rng.chance(1, 2) {
            self.rng.shuffle(&mut txs);
            for t in txs.iter_mut() {
                if let Step::Tx { via, .. } = t {
                    if via.is_empty() {
                        *via = "reordered".into();
                    }
                }
            }
        }
        self.emitted += txs.len() as u32;
        steps.extend(txs);
        for (kind, pct) in self.p.forks.clone() {
            if self.rng.chance(pct as u64, 100) {
                steps.push(Step::Fork { kind: kind.to_string(), seed: self.rng.next_u64() });
            }
        }
        steps
    }
}
