//! Local PRNG: splitmix64 seeding + xoshiro256**. No external crate, no clocks.
//! Everything random in a run derives from one u64.

#[derive(Clone, Debug)]
pub struct Rng {
    s: [u64; 4],
}

pub fn splitmix64(x: &mut u64) -> u64 {
    *x = x.wrapping_add(0x9E3779B97F4A7C15);
    let mut z = *x;
    z = (z ^ (z >> 30)).wrapping_mul(0xBF58476D1CE4E5B9);
    z = (z ^ (z >> 27)).wrapping_mul(0x94D049BB133111EB);
    z ^ (z >> 31)
}

/// Mix several integers into one seed (order-sensitive).
pub fn mix(parts: &[u64]) -> u64 {
    let mut h: u64 = 0x243F6A8885A308D3;
    for p in parts {
        let mut x = h ^ p.wrapping_mul(0x9E3779B97F4A7C15);
        h = splitmix64(&mut x);
    }
    h
}

pub fn hash_str(s: &str) -> u64 {
    let mut h: u64 = 0xcbf29ce484222325;
    for b in s.as_bytes() {
        h ^= *b as u64;
        h = h.wrapping_mul(0x100000001b3);
    }
    h
}

impl Rng {
    pub fn new(seed: u64) -> Self {
        let mut x = seed;
        let s = [
            splitmix64(&mut x),
            splitmix64(&mut x),
            splitmix64(&mut x),
            splitmix64(&mut x),
        ];
        Rng { s }
    }

    /// Independent sub-stream (does not consume from self).
    pub fn sub(seed: u64, tag: u64) -> Self {
        Rng::new(mix(&[seed, tag, 0x5EED]))
    }

    pub fn next_u64(&mut self) -> u64 {
        let result = self.s[1].wrapping_mul(5).rotate_left(7).wrapping_mul(9);
        let t = self.s[1] << 17;
        self.s[2] ^= self.s[0];
        self.s[3] ^= self.s[1];
        self.s[1] ^= self.s[2];
        self.s[0] ^= self.s[3];
        self.s[2] ^= t;
        self.s[3] = self.s[3].rotate_left(45);
        result
    }

    pub fn next_u128(&mut self) -> u128 {
        ((self.next_u64() as u128) << 64) | self.next_u64() as u128
    }

    /// uniform in [0, n) ; n > 0
    pub fn below(&mut self, n: u64) -> u64 {
        if n <= 1 {
            return 0;
        }
        // rejection-free multiply-shift (bias negligible for our n)
        ((self.next_u64() as u128 * n as u128) >> 64) as u64
    }

    pub fn below128(&mut self, n: u128) -> u128 {
        if n <= 1 {
            return 0;
        }
        if n <= u64::MAX as u128 {
            return self.below(n as u64) as u128;
        }
        self.next_u128() % n
    }

    /// uniform in [lo, hi] inclusive
    pub fn range(&mut self, lo: u64, hi: u64) -> u64 {
        if hi <= lo {
            return lo;
        }
        lo + self.below(hi - lo + 1)
    }

    pub fn range128(&mut self, lo: u128, hi: u128) -> u128 {
        if hi <= lo {
            return lo;
        }
        lo + self.below128(hi - lo + 1)
    }

    /// true with probability num/den
    pub fn chance(&mut self, num: u64, den: u64) -> bool {
        self.below(den) < num
    }

    pub fn pick<'a, T>(&mut self, xs: &'a [T]) -> &'a T {
        &xs[self.below(xs.len() as u64) as usize]
    }

    pub fn pick_weighted(&mut self, weights: &[u32]) -> usize {
        let total: u64 = weights.iter().map(|w| *w as u64).sum();
        if total == 0 {
            return 0;
        }
        let mut r = self.below(total);
        for (i, w) in weights.iter().enumerate() {
            if r < *w as u64 {
                return i;
            }
            r -= *w as u64;
        }
        weights.len() - 1
    }

    /// log-uniform integer in [1, max]
    pub fn log_uniform(&mut self, max: u128) -> u128 {
        if max <= 1 {
            return 1;
        }
        let bits = 128 - max.leading_zeros() as u64;
        let b = self.range(1, bits);
        let hi = if b >= 128 { u128::MAX } else { (1u128 << b) - 1 };
        let lo = 1u128 << (b - 1);
        let v = self.range128(lo, hi.min(max));
        v.clamp(1, max)
    }

    pub fn shuffle<T>(&mut self, xs: &mut [T]) {
        let n = xs.len();
        for i in (1..n).rev() {
            let j = self.below(i as u64 + 1) as usize;
            xs.swap(i, j);
        }
    }
}
