//! Reference arithmetic for the oracles: exact integer / rational computation on
//! `cosmwasm_std::Uint256` / `Uint512` (a different big-integer implementation from the
//! `bigint`-based `cosmwasm-bignumber` the contracts use). Never calls contract helpers.

use cosmwasm_std::{Decimal, Uint128, Uint256, Uint512};

pub const ONE: u128 = 1_000_000_000_000_000_000;

pub fn atomics(d: Decimal) -> u128 {
    d.atomics().u128()
}

pub fn dec(atomics: u128) -> Decimal {
    Decimal::new(Uint128::new(atomics))
}

fn to128(x: Uint256) -> Option<u128> {
    let r: Result<Uint128, _> = x.try_into();
    r.ok().map(|v| v.u128())
}

/// floor(a*b/c); None when c == 0 or the result exceeds u128
pub fn muldiv(a: u128, b: u128, c: u128) -> Option<u128> {
    if c == 0 {
        return None;
    }
    to128(Uint256::from(a) * Uint256::from(b) / Uint256::from(c))
}

/// ceil(a*b/c)
pub fn muldiv_ceil(a: u128, b: u128, c: u128) -> Option<u128> {
    if c == 0 {
        return None;
    }
    let p = Uint256::from(a) * Uint256::from(b);
    let c2 = Uint256::from(c);
    let q = p / c2;
    let r = p - q * c2;
    to128(if r.is_zero() { q } else { q + Uint256::one() })
}

/// floor18(n/d) as Decimal atomics: how `Decimal::from_ratio` is defined on chain
pub fn ratio18(n: u128, d: u128) -> Option<u128> {
    muldiv(n, ONE, d)
}

/// floor(a * rate) for a rate given in atomics (= `Uint128 * Decimal`)
pub fn mul_rate(a: u128, rate_atomics: u128) -> Option<u128> {
    muldiv(a, rate_atomics, ONE)
}

/// floor(a / rate) for a rate given in atomics (the hub's `decimal_division`)
pub fn div_rate(a: u128, rate_atomics: u128) -> Option<u128> {
    muldiv(a, ONE, rate_atomics)
}

/// the exchange rate the hub defines: bonded / (supply + requested), 1 if either is 0
pub fn rate_of(bonded: u128, supply_plus_requested: u128) -> Option<u128> {
    if bonded == 0 || supply_plus_requested == 0 {
        Some(ONE)
    } else {
        ratio18(bonded, supply_plus_requested)
    }
}

/// compare a/b with c/d exactly
pub fn cmp_frac(a: u128, b: u128, c: u128, d: u128) -> std::cmp::Ordering {
    (Uint256::from(a) * Uint256::from(d)).cmp(&(Uint256::from(c) * Uint256::from(b)))
}

/// exact product of two decimals' atomics as 512-bit atomics^2 (for fractional accrual sums)
pub fn wide_mul(a: u128, b: u128) -> Uint256 {
    Uint256::from(a) * Uint256::from(b)
}

pub fn abs_diff(a: u128, b: u128) -> u128 {
    if a > b {
        a - b
    } else {
        b - a
    }
}

#[allow(dead_code)]
pub fn u512(a: u128) -> Uint512 {
    Uint512::from(a)
}
