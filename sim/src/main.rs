mod chain;
mod deploy;
mod driver;
mod forks;
mod gen;
mod monitors;
mod obs;
mod ops;
mod refmath;
mod rng;
mod sim;
mod wasm;

fn main() {
    wasm::install_panic_hook();
    let args: Vec<String> = std::env::args().collect();
    let code = driver::main(&args);
    std::process::exit(code);
}
