//! The simulated chain state: bank, staking, distribution, contract storages, stub
//! contracts' configuration, block header.  `World` is a plain value: `Clone`,
//! ordered maps only, no hash maps, no pointers.  A transaction runs on a clone and
//! replaces the world only if its whole call tree succeeded.

use serde::{Deserialize, Serialize};
use std::collections::{BTreeMap, BTreeSet};

pub const DENOM: &str = "usei"; // staking coin = hub underlying = stSei reward denom
pub const REWARD_DENOM: &str = "kusd"; // bSei reward denom
pub const EXTRA_SWAP_DENOM: &str = "uatom"; // listed in swap_denoms
pub const JUNK_DENOM: &str = "ujunk"; // never listed

pub const HUB: &str = "hub";
pub const BSEI: &str = "bsei";
pub const STSEI: &str = "stsei";
pub const REWARD: &str = "reward";
pub const DISPATCHER: &str = "dispatcher";
pub const REGISTRY: &str = "registry";
pub const SWAP: &str = "swap";
pub const ORACLE: &str = "oracle";
pub const AIRDROP: &str = "airdrop";
pub const SINK: &str = "sink";
pub const FOREIGN_CW20: &str = "foreigncw20";
pub const OWNER: &str = "owner";
pub const KEEPER: &str = "keeper";
pub const UPDATER: &str = "updater";
pub const INTRUDER: &str = "intruder";

pub type Store = BTreeMap<Vec<u8>, Vec<u8>>;

#[derive(Clone, Copy, Debug, PartialEq, Eq, Hash, Serialize, Deserialize, PartialOrd, Ord)]
pub enum Kind {
    Hub,
    Reward,
    Dispatcher,
    Registry,
    BSei,
    StSei,
    Swap,
    Oracle,
    /// accepts any execute message (cw20 Receive hooks, claims) and does nothing
    Sink,
    /// answers hub `Config` and dispatcher `Config` queries and accepts everything
    /// (collaborator stub of the token-focused worlds of C18)
    CfgStub,
}

#[derive(Clone, Debug, PartialEq, Eq, Hash, Serialize, Deserialize)]
pub struct ContractInst {
    pub kind: Kind,
    #[serde(with = "store_hex")]
    pub storage: Store,
}

mod store_hex {
    use super::Store;
    use serde::{Deserialize, Deserializer, Serialize, Serializer};
    fn hex(b: &[u8]) -> String {
        let mut s = String::with_capacity(b.len() * 2);
        for x in b {
            s.push_str(&format!("{:02x}", x));
        }
        s
    }
    fn unhex(s: &str) -> Vec<u8> {
        (0..s.len() / 2)
            .map(|i| u8::from_str_radix(&s[2 * i..2 * i + 2], 16).unwrap_or(0))
            .collect()
    }
    pub fn serialize<S: Serializer>(st: &Store, s: S) -> Result<S::Ok, S::Error> {
        let v: Vec<(String, String)> = st.iter().map(|(k, v)| (hex(k), hex(v))).collect();
        v.serialize(s)
    }
    pub fn deserialize<'de, D: Deserializer<'de>>(d: D) -> Result<Store, D::Error> {
        let v: Vec<(String, String)> = Vec::deserialize(d)?;
        Ok(v.into_iter().map(|(k, v)| (unhex(&k), unhex(&v))).collect())
    }
}

mod as_pairs {
    use serde::{Deserialize, Deserializer, Serialize, Serializer};
    use std::collections::BTreeMap;
    pub fn serialize<K: Serialize + Ord, V: Serialize, S: Serializer>(m: &BTreeMap<K, V>, s: S) -> Result<S::Ok, S::Error> {
        let v: Vec<(&K, &V)> = m.iter().collect();
        v.serialize(s)
    }
    pub fn deserialize<'de, K: Deserialize<'de> + Ord, V: Deserialize<'de>, D: Deserializer<'de>>(d: D) -> Result<BTreeMap<K, V>, D::Error> {
        let v: Vec<(K, V)> = Vec::deserialize(d)?;
        Ok(v.into_iter().collect())
    }
}

#[derive(Clone, Debug, PartialEq, Eq, Hash, Serialize, Deserialize)]
pub struct Unbonding {
    pub delegator: String,
    pub validator: String,
    pub amount: u128,
    pub initial: u128,
    pub creation_time: u64,
    pub completion_time: u64,
}

#[derive(Clone, Debug, PartialEq, Eq, Hash, Serialize, Deserialize)]
pub struct Redelegation {
    pub delegator: String,
    pub src: String,
    pub dst: String,
    pub completion_time: u64,
}

#[derive(Clone, Debug, Default, PartialEq, Eq, Hash, Serialize, Deserialize)]
pub struct Staking {
    pub validators: BTreeSet<String>,
    /// (delegator, validator) -> tokens ; never holds zero entries
    #[serde(with = "as_pairs")]
    pub delegations: BTreeMap<(String, String), u128>,
    pub unbonding: Vec<Unbonding>,
    pub redelegations: Vec<Redelegation>,
    /// fault `redelegation_blocked`: staking reports can_redelegate = 0 for these
    /// source validators and rejects Redelegate from them
    pub redelegation_blocked: BTreeSet<String>,
    /// jailed validators: they keep every delegation and accept staking messages, but are not
    /// part of the active set: `AllValidators` omits them and `Validator { address }` answers
    /// None, as cosmwasm-std documents both queries
    #[serde(default)]
    pub jailed: BTreeSet<String>,
    pub unbonding_time: u64,
    /// buggify: answer AllDelegations in reverse validator order
    pub reverse_query_order: bool,
}

#[derive(Clone, Debug, Default, PartialEq, Eq, Hash, Serialize, Deserialize)]
pub struct Distr {
    /// (delegator, validator) -> denom -> pending reward
    #[serde(with = "as_pairs")]
    pub pending: BTreeMap<(String, String), BTreeMap<String, u128>>,
    pub withdraw_addr: BTreeMap<String, String>,
}

#[derive(Clone, Copy, Debug, PartialEq, Eq, Hash, Serialize, Deserialize, PartialOrd, Ord)]
pub enum SwapMode {
    Ok,
    Error,
    Garbage,
    PaysNothing,
    PaysWrongDenom,
}

#[derive(Clone, Copy, Debug, PartialEq, Eq, Hash, Serialize, Deserialize, PartialOrd, Ord)]
pub enum OracleMode {
    Ok,
    Error,
    Garbage,
    ZeroRate,
    HugeRate,
    TinyRate,
}

pub const SWAP_MODES: [SwapMode; 5] = [
    SwapMode::Ok,
    SwapMode::Error,
    SwapMode::Garbage,
    SwapMode::PaysNothing,
    SwapMode::PaysWrongDenom,
];
pub const ORACLE_MODES: [OracleMode; 6] = [
    OracleMode::Ok,
    OracleMode::Error,
    OracleMode::Garbage,
    OracleMode::ZeroRate,
    OracleMode::HugeRate,
    OracleMode::TinyRate,
];

/// Configuration of the external stub contracts (swap, oracle).
#[derive(Clone, Debug, PartialEq, Eq, Hash, Serialize, Deserialize)]
pub struct Ext {
    pub swap_mode: SwapMode,
    pub oracle_mode: OracleMode,
    /// oracle answer: REWARD_DENOM per DENOM, as Decimal atomics (1e18 = 1.0)
    pub oracle_rate_atomics: u128,
    /// swap price = oracle price * (1e6 + slip_ppm) / 1e6 ; slip may be negative
    pub swap_slip_ppm: i64,
    /// price of EXTRA_SWAP_DENOM in REWARD_DENOM, Decimal atomics
    pub extra_price_atomics: u128,
    /// buggify: swap rounds its payout down by one more unit
    pub swap_extra_round_down: bool,
    /// trades executed by the swap stub in the current transaction are appended to
    /// the call trace, not kept here.
    pub dummy: u8,
}

impl Default for Ext {
    fn default() -> Self {
        Ext {
            swap_mode: SwapMode::Ok,
            oracle_mode: OracleMode::Ok,
            oracle_rate_atomics: 1_000_000_000_000_000_000,
            swap_slip_ppm: 0,
            extra_price_atomics: 1_000_000_000_000_000_000,
            swap_extra_round_down: false,
            dummy: 0,
        }
    }
}

#[derive(Clone, Debug, PartialEq, Eq, Hash, Serialize, Deserialize)]
pub struct World {
    pub height: u64,
    pub time: u64,
    /// address -> denom -> amount ; never holds zero entries
    pub bank: BTreeMap<String, BTreeMap<String, u128>>,
    pub staking: Staking,
    pub distr: Distr,
    pub contracts: BTreeMap<String, ContractInst>,
    pub ext: Ext,
}

pub type ChainResult<T> = Result<T, String>;

impl World {
    pub fn new(time: u64, unbonding_time: u64) -> Self {
        World {
            height: 1,
            time,
            bank: BTreeMap::new(),
            staking: Staking {
                unbonding_time,
                ..Default::default()
            },
            distr: Distr::default(),
            contracts: BTreeMap::new(),
            ext: Ext::default(),
        }
    }

    // ---------------------------------------------------------------- digest

    pub fn digest(&self) -> u128 {
        use std::hash::{Hash, Hasher};
        struct Fnv(u64);
        impl Hasher for Fnv {
            fn finish(&self) -> u64 {
                self.0
            }
            fn write(&mut self, bytes: &[u8]) {
                for b in bytes {
                    self.0 ^= *b as u64;
                    self.0 = self.0.wrapping_mul(0x100000001b3);
                }
            }
        }
        let mut a = Fnv(0xcbf29ce484222325);
        self.hash(&mut a);
        let mut b = Fnv(0x84222325cbf29ce4);
        self.hash(&mut b);
        ((a.finish() as u128) << 64) | b.finish() as u128
    }

    pub fn to_bytes(&self) -> Vec<u8> {
        serde_json::to_vec(self).expect("world serialises")
    }

    pub fn from_bytes(b: &[u8]) -> Result<World, String> {
        serde_json::from_slice(b).map_err(|e| e.to_string())
    }

    // ------------------------------------------------------------------ bank

    pub fn balance(&self, addr: &str, denom: &str) -> u128 {
        self.bank
            .get(addr)
            .and_then(|m| m.get(denom))
            .copied()
            .unwrap_or(0)
    }

    pub fn all_balances(&self, addr: &str) -> Vec<(String, u128)> {
        self.bank
            .get(addr)
            .map(|m| m.iter().map(|(d, a)| (d.clone(), *a)).collect())
            .unwrap_or_default()
    }

    pub fn credit(&mut self, addr: &str, denom: &str, amount: u128) {
        if amount == 0 {
            return;
        }
        let e = self
            .bank
            .entry(addr.to_string())
            .or_default()
            .entry(denom.to_string())
            .or_insert(0);
        *e = e.checked_add(amount).expect("bank overflow");
    }

    pub fn debit(&mut self, addr: &str, denom: &str, amount: u128) -> ChainResult<()> {
        if amount == 0 {
            return Ok(());
        }
        let have = self.balance(addr, denom);
        if have < amount {
            return Err(format!(
                "insufficient funds: {} has {}{} needs {}",
                addr, have, denom, amount
            ));
        }
        let m = self.bank.get_mut(addr).unwrap();
        if have == amount {
            m.remove(denom);
            if m.is_empty() {
                self.bank.remove(addr);
            }
        } else {
            *m.get_mut(denom).unwrap() = have - amount;
        }
        Ok(())
    }

    /// Move coins; zero-amount coins are dropped (as `sdk.Coins.Add` does).
    pub fn transfer(&mut self, from: &str, to: &str, coins: &[(String, u128)]) -> ChainResult<()> {
        for (d, a) in coins {
            self.debit(from, d, *a)?;
        }
        for (d, a) in coins {
            self.credit(to, d, *a);
        }
        Ok(())
    }

    /// `MsgSend` semantics: after dropping zero coins the amount must be non-empty
    /// (Cosmos SDK `MsgSend.ValidateBasic`: `!Amount.IsAllPositive()` is an error,
    /// and `IsAllPositive` is false for the empty set).
    pub fn bank_send(&mut self, from: &str, to: &str, coins: &[(String, u128)]) -> ChainResult<()> {
        if coins.is_empty() {
            // wasmd's encoder silently skips a Send with an empty amount list
            return Ok(());
        }
        let positive: Vec<(String, u128)> = coins.iter().filter(|c| c.1 > 0).cloned().collect();
        if positive.is_empty() {
            return Err("bank: invalid coins: zero-amount transfer".to_string());
        }
        self.transfer(from, to, &positive)
    }

    // --------------------------------------------------------------- staking

    pub fn delegation(&self, delegator: &str, validator: &str) -> u128 {
        self.staking
            .delegations
            .get(&(delegator.to_string(), validator.to_string()))
            .copied()
            .unwrap_or(0)
    }

    pub fn delegations_of(&self, delegator: &str) -> Vec<(String, u128)> {
        let mut v: Vec<(String, u128)> = self
            .staking
            .delegations
            .iter()
            .filter(|((d, _), _)| d == delegator)
            .map(|((_, v), a)| (v.clone(), *a))
            .collect();
        if self.staking.reverse_query_order {
            v.reverse();
        }
        v
    }

    pub fn total_delegated(&self, delegator: &str) -> u128 {
        self.staking
            .delegations
            .iter()
            .filter(|((d, _), _)| d == delegator)
            .map(|(_, a)| *a)
            .sum()
    }

    fn set_delegation(&mut self, delegator: &str, validator: &str, amount: u128) {
        let k = (delegator.to_string(), validator.to_string());
        if amount == 0 {
            self.staking.delegations.remove(&k);
        } else {
            self.staking.delegations.insert(k, amount);
        }
    }

    /// Distribution hook: any change of a delegation first pays out its pending rewards.
    fn hook_withdraw(&mut self, delegator: &str, validator: &str) -> Vec<(String, u128)> {
        let k = (delegator.to_string(), validator.to_string());
        if let Some(p) = self.distr.pending.remove(&k) {
            let to = self
                .distr
                .withdraw_addr
                .get(delegator)
                .cloned()
                .unwrap_or_else(|| delegator.to_string());
            let mut paid = vec![];
            for (d, a) in p {
                self.credit(&to, &d, a);
                paid.push((d, a));
            }
            paid
        } else {
            vec![]
        }
    }

    pub fn delegate(&mut self, delegator: &str, validator: &str, denom: &str, amount: u128) -> ChainResult<Vec<(String, u128)>> {
        if denom != DENOM {
            return Err(format!("staking: invalid coin denomination: got {}", denom));
        }
        if amount == 0 {
            return Err("staking: invalid delegation amount".into());
        }
        if !self.staking.validators.contains(validator) {
            return Err(format!("staking: validator does not exist: {}", validator));
        }
        self.debit(delegator, denom, amount)?;
        let paid = self.hook_withdraw(delegator, validator);
        let cur = self.delegation(delegator, validator);
        self.set_delegation(delegator, validator, cur + amount);
        Ok(paid)
    }

    pub fn undelegate(&mut self, delegator: &str, validator: &str, denom: &str, amount: u128) -> ChainResult<Vec<(String, u128)>> {
        if denom != DENOM {
            return Err(format!("staking: invalid coin denomination: got {}", denom));
        }
        if amount == 0 {
            return Err("staking: invalid shares amount".into());
        }
        let cur = self.delegation(delegator, validator);
        if cur == 0 {
            return Err("staking: no delegation for (address, validator) tuple".into());
        }
        if amount > cur {
            return Err("staking: invalid shares amount: too many".into());
        }
        let paid = self.hook_withdraw(delegator, validator);
        self.set_delegation(delegator, validator, cur - amount);
        let t = self.time;
        let ct = t + self.staking.unbonding_time;
        self.staking.unbonding.push(Unbonding {
            delegator: delegator.to_string(),
            validator: validator.to_string(),
            amount,
            initial: amount,
            creation_time: t,
            completion_time: ct,
        });
        Ok(paid)
    }

    /// what the chain reports as `can_redelegate` for (delegator, validator)
    pub fn can_redelegate(&self, delegator: &str, validator: &str) -> u128 {
        if self.staking.redelegation_blocked.contains(validator) {
            return 0;
        }
        // wasmd: an incoming, still maturing redelegation blocks a further hop
        if self
            .staking
            .redelegations
            .iter()
            .any(|r| r.delegator == delegator && r.dst == validator)
        {
            return 0;
        }
        self.delegation(delegator, validator)
    }

    pub fn redelegate(&mut self, delegator: &str, src: &str, dst: &str, denom: &str, amount: u128) -> ChainResult<Vec<(String, u128)>> {
        if denom != DENOM {
            return Err(format!("staking: invalid coin denomination: got {}", denom));
        }
        if amount == 0 {
            return Err("staking: invalid shares amount".into());
        }
        if src == dst {
            return Err("staking: cannot redelegate to the same validator".into());
        }
        if !self.staking.validators.contains(dst) {
            return Err(format!("staking: validator does not exist: {}", dst));
        }
        let cur = self.delegation(delegator, src);
        if cur == 0 {
            return Err("staking: no delegation for (address, validator) tuple".into());
        }
        if amount > cur {
            return Err("staking: invalid shares amount: too many".into());
        }
        if self.can_redelegate(delegator, src) < amount {
            return Err("staking: redelegation to this validator already in progress; first redelegation to this validator must complete before next redelegation".into());
        }
        let mut paid = self.hook_withdraw(delegator, src);
        paid.extend(self.hook_withdraw(delegator, dst));
        self.set_delegation(delegator, src, cur - amount);
        let d = self.delegation(delegator, dst);
        self.set_delegation(delegator, dst, d + amount);
        let ct = self.time + self.staking.unbonding_time;
        self.staking.redelegations.push(Redelegation {
            delegator: delegator.to_string(),
            src: src.to_string(),
            dst: dst.to_string(),
            completion_time: ct,
        });
        Ok(paid)
    }

    /// Slash validator `v` by num/den. Returns (bonded loss, unbonding loss) of all delegators.
    pub fn slash(&mut self, v: &str, num: u128, den: u128, also_unbonding: bool) -> (u128, u128) {
        let mut lost_b = 0u128;
        let mut lost_u = 0u128;
        let keys: Vec<(String, String)> = self
            .staking
            .delegations
            .keys()
            .filter(|(_, val)| val == v)
            .cloned()
            .collect();
        for k in keys {
            let cur = self.staking.delegations[&k];
            let keep = mul_div_floor(cur, den - num, den);
            lost_b += cur - keep;
            if keep == 0 {
                // delegation emptied: distribution pays out pending rewards
                self.hook_withdraw(&k.0, &k.1);
                self.staking.delegations.remove(&k);
            } else {
                self.staking.delegations.insert(k, keep);
            }
        }
        if also_unbonding {
            let now = self.time;
            for u in self.staking.unbonding.iter_mut() {
                if u.validator == v && u.completion_time > now {
                    let keep = mul_div_floor(u.amount, den - num, den);
                    lost_u += u.amount - keep;
                    u.amount = keep;
                }
            }
        }
        (lost_b, lost_u)
    }

    /// begin-block: credit matured unbonding entries, expire redelegation records.
    /// Returns the credited entries.
    pub fn mature(&mut self) -> Vec<Unbonding> {
        let now = self.time;
        let mut done = vec![];
        let mut rest = vec![];
        for u in std::mem::take(&mut self.staking.unbonding) {
            if u.completion_time <= now {
                done.push(u);
            } else {
                rest.push(u);
            }
        }
        self.staking.unbonding = rest;
        for u in &done {
            let d = u.delegator.clone();
            self.credit(&d, DENOM, u.amount);
        }
        self.staking.redelegations.retain(|r| r.completion_time > now);
        done
    }

    // ---------------------------------------------------------- distribution

    pub fn add_pending_reward(&mut self, delegator: &str, validator: &str, denom: &str, amount: u128) -> bool {
        if amount == 0 || self.delegation(delegator, validator) == 0 {
            return false;
        }
        let e = self
            .distr
            .pending
            .entry((delegator.to_string(), validator.to_string()))
            .or_default()
            .entry(denom.to_string())
            .or_insert(0);
        *e += amount;
        true
    }

    pub fn pending_rewards_of(&self, delegator: &str) -> BTreeMap<String, u128> {
        let mut out: BTreeMap<String, u128> = BTreeMap::new();
        for ((d, _), m) in &self.distr.pending {
            if d == delegator {
                for (den, a) in m {
                    *out.entry(den.clone()).or_insert(0) += *a;
                }
            }
        }
        out
    }

    pub fn withdraw_delegator_reward(&mut self, delegator: &str, validator: &str) -> ChainResult<Vec<(String, u128)>> {
        if self.delegation(delegator, validator) == 0 {
            return Err("distribution: no delegation distribution info".into());
        }
        Ok(self.hook_withdraw(delegator, validator))
    }

    pub fn set_withdraw_address(&mut self, delegator: &str, addr: &str) -> ChainResult<()> {
        self.distr
            .withdraw_addr
            .insert(delegator.to_string(), addr.to_string());
        Ok(())
    }
}

/// floor(a * b / c) in 256-bit intermediate
pub fn mul_div_floor(a: u128, b: u128, c: u128) -> u128 {
    use cosmwasm_std::Uint256;
    let r = Uint256::from(a) * Uint256::from(b) / Uint256::from(c);
    let r128: cosmwasm_std::Uint128 = r.try_into().expect("mul_div overflow");
    r128.u128()
}
