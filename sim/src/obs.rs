//! Observation of the system through the contracts' public query entry points (and the
//! simulated modules' public state). No private contract function is an oracle input.
//! The single place where an internal storage layout is relied upon is the raw read of
//! the hub's stored `State` item (the `State` smart query repairs the books before
//! answering, so only a raw storage query can see an excess; DESIGN 2.2).

use crate::chain::*;
use crate::ops::Tok;
use crate::wasm::{query_typed, RoStore};
use basset::hub::{
    AllHistoryResponse, ConfigResponse, CurrentBatchResponse, Parameters, QueryMsg as HubQ, StateResponse,
    UnbondHistoryResponse, UnbondRequestsResponse, WithdrawableUnbondedResponse,
};
use basset::reward::{HolderResponse, HoldersResponse, QueryMsg as RewQ, StateResponse as RewState};
use cosmwasm_std::Storage;
use cw20::{AllAccountsResponse, AllowanceResponse, BalanceResponse, Cw20QueryMsg, MinterResponse, TokenInfoResponse};
use std::collections::{BTreeMap, BTreeSet};

#[derive(Clone, Debug)]
pub struct HubObs {
    pub state: Option<StateResponse>,
    pub state_err: Option<String>,
    pub raw: Option<basset::hub::State>,
    pub params: Parameters,
    pub config: ConfigResponse,
    pub new_owner: Option<String>,
    pub batch: CurrentBatchResponse,
    pub history: Vec<UnbondHistoryResponse>,
    pub requests: BTreeMap<String, Vec<(u64, u128, u128)>>,
    pub withdrawable: BTreeMap<String, u128>,
    pub legacy_wait_entries: usize,
}

#[derive(Clone, Debug, Default)]
pub struct TokObs {
    pub supply: u128,
    pub minter: Option<String>,
    pub accounts: Vec<String>,
    pub bal: BTreeMap<String, u128>,
    pub allow: BTreeMap<(String, String), AllowanceResponse>,
}

#[derive(Clone, Debug)]
pub struct RewardObs {
    pub state: RewState,
    pub holders: Vec<HolderResponse>,
    pub accrued: BTreeMap<String, u128>,
    pub config: basset::reward::ConfigResponse,
}

#[derive(Clone, Debug)]
pub struct Obs {
    pub hub: Option<HubObs>,
    pub tok: [Option<TokObs>; 2],
    pub reward: Option<RewardObs>,
    pub dispatcher: Option<basset::dispatcher::ConfigResponse>,
    pub registry: Option<Vec<basset_sei_validators_registry::registry::ValidatorResponse>>,
    pub registry_cfg: Option<basset_sei_validators_registry::registry::Config>,
    /// (owner, pending nominee) of every ownable contract, from Config / NewOwner queries
    pub owners: BTreeMap<String, (String, String)>,
    pub errors: Vec<String>,
}

impl Obs {
    pub fn t(&self, t: Tok) -> Option<&TokObs> {
        self.tok[t.idx()].as_ref()
    }
}

pub const HUB_STATE_KEY: &[u8] = b"\x00\x05state";

pub fn observe(w: &World, known: &BTreeSet<String>, allow_pairs: &BTreeSet<(usize, String, String)>) -> Obs {
    let mut errors = vec![];
    let hub = if w.contracts.get(HUB).map(|c| c.kind) == Some(Kind::Hub) {
        observe_hub(w, known, &mut errors)
    } else {
        None
    };
    let mut tok: [Option<TokObs>; 2] = [None, None];
    for t in [Tok::B, Tok::St] {
        if w.contracts.contains_key(t.addr()) {
            tok[t.idx()] = observe_token(w, t, known, allow_pairs, &mut errors);
        }
    }
    let reward = if w.contracts.get(REWARD).map(|c| c.kind) == Some(Kind::Reward) {
        observe_reward(w, known, &mut errors)
    } else {
        None
    };
    let dispatcher: Option<basset::dispatcher::ConfigResponse> = if w.contracts.get(DISPATCHER).map(|c| c.kind) == Some(Kind::Dispatcher) {
        match query_typed(w, DISPATCHER, &basset_sei_rewards_dispatcher::msg::QueryMsg::Config {}) {
            Ok(c) => Some(c),
            Err(e) => {
                errors.push(format!("dispatcher config: {}", e));
                None
            }
        }
    } else {
        None
    };
    let (registry, registry_cfg) = if w.contracts.get(REGISTRY).map(|c| c.kind) == Some(Kind::Registry) {
        let v = match query_typed(w, REGISTRY, &basset_sei_validators_registry::msg::QueryMsg::GetValidatorsForDelegation {}) {
            Ok(c) => Some(c),
            Err(e) => {
                errors.push(format!("registry validators: {}", e));
                None
            }
        };
        let c: Option<basset_sei_validators_registry::registry::Config> = query_typed(w, REGISTRY, &basset_sei_validators_registry::msg::QueryMsg::Config {}).ok();
        (v, c)
    } else {
        (None, None)
    };
    let mut owners = BTreeMap::new();
    let nominee = |c: &str| -> Option<String> { crate::wasm::query_json(w, c, &serde_json::json!({"new_owner": {}})).ok().and_then(|v| v.get("new_owner").and_then(|x| x.as_str()).map(|s| s.to_string())) };
    if let Some(h) = &hub {
        if let Some(n) = nominee(HUB) {
            owners.insert(HUB.to_string(), (h.config.owner.clone(), n));
        }
    }
    if let Some(d) = &dispatcher {
        if let Some(n) = nominee(DISPATCHER) {
            owners.insert(DISPATCHER.to_string(), (d.owner.clone(), n));
        }
    }
    if let Some(r) = &reward {
        if let Some(n) = nominee(REWARD) {
            owners.insert(REWARD.to_string(), (r.config.owner.clone(), n));
        }
    }
    if let Some(c) = &registry_cfg {
        if let (Ok(o), Some(n)) = (cosmwasm_std::Api::addr_humanize(&crate::wasm::api(), &c.owner), nominee(REGISTRY)) {
            owners.insert(REGISTRY.to_string(), (o.to_string(), n));
        }
    }
    Obs { hub, tok, reward, dispatcher, registry, registry_cfg, owners, errors }
}

fn observe_hub(w: &World, known: &BTreeSet<String>, errors: &mut Vec<String>) -> Option<HubObs> {
    let params: Parameters = match query_typed(w, HUB, &HubQ::Parameters {}) {
        Ok(p) => p,
        Err(e) => {
            errors.push(format!("hub params: {}", e));
            return None;
        }
    };
    let config: ConfigResponse = match query_typed(w, HUB, &HubQ::Config {}) {
        Ok(p) => p,
        Err(e) => {
            errors.push(format!("hub config: {}", e));
            return None;
        }
    };
    let batch: CurrentBatchResponse = match query_typed(w, HUB, &HubQ::CurrentBatch {}) {
        Ok(p) => p,
        Err(e) => {
            errors.push(format!("hub batch: {}", e));
            return None;
        }
    };
    let (state, state_err) = match query_typed::<_, StateResponse>(w, HUB, &HubQ::State {}) {
        Ok(s) => (Some(s), None),
        Err(e) => (None, Some(e)),
    };
    let new_owner = query_typed::<_, basset::hub::NewOwnerResponse>(w, HUB, &HubQ::NewOwner {}).ok().map(|r| r.new_owner);
    let inst = &w.contracts[HUB];
    let raw = inst.storage.get(HUB_STATE_KEY).and_then(|b| cosmwasm_std::from_json::<basset::hub::State>(b).ok());
    // all history, paged to the end
    let mut history: Vec<UnbondHistoryResponse> = vec![];
    let mut start: Option<u64> = None;
    loop {
        let page: AllHistoryResponse = match query_typed(w, HUB, &HubQ::AllHistory { start_from: start, limit: Some(100) }) {
            Ok(p) => p,
            Err(e) => {
                errors.push(format!("hub history: {}", e));
                break;
            }
        };
        let n = page.history.len();
        if n == 0 {
            break;
        }
        start = Some(page.history[n - 1].batch_id);
        history.extend(page.history);
        if n < 100 {
            break;
        }
    }
    let mut requests = BTreeMap::new();
    let mut withdrawable = BTreeMap::new();
    for a in known {
        match query_typed::<_, UnbondRequestsResponse>(w, HUB, &HubQ::UnbondRequests { address: a.clone() }) {
            Ok(r) => {
                if !r.requests.is_empty() {
                    requests.insert(a.clone(), r.requests.iter().map(|x| (x.0, x.1.u128(), x.2.u128())).collect());
                }
            }
            Err(e) => errors.push(format!("hub requests {}: {}", a, e)),
        }
        match query_typed::<_, WithdrawableUnbondedResponse>(w, HUB, &HubQ::WithdrawableUnbonded { address: a.clone() }) {
            Ok(r) => {
                if !r.withdrawable.is_zero() {
                    withdrawable.insert(a.clone(), r.withdrawable.u128());
                }
            }
            Err(e) => errors.push(format!("hub withdrawable {}: {}", a, e)),
        }
    }
    // legacy entries: count keys under the length-prefixed "wait" namespace
    let ro = RoStore(&inst.storage);
    let prefix = b"\x00\x04wait".to_vec();
    let mut end = prefix.clone();
    *end.last_mut().unwrap() += 1;
    let legacy_wait_entries = ro.range(Some(&prefix), Some(&end), cosmwasm_std::Order::Ascending).count();
    Some(HubObs { state, state_err, raw, params, config, new_owner, batch, history, requests, withdrawable, legacy_wait_entries })
}

fn observe_token(
    w: &World,
    t: Tok,
    known: &BTreeSet<String>,
    allow_pairs: &BTreeSet<(usize, String, String)>,
    errors: &mut Vec<String>,
) -> Option<TokObs> {
    let c = t.addr();
    let info: TokenInfoResponse = match query_typed(w, c, &Cw20QueryMsg::TokenInfo {}) {
        Ok(i) => i,
        Err(e) => {
            errors.push(format!("{} token info: {}", c, e));
            return None;
        }
    };
    let minter: Option<MinterResponse> = query_typed(w, c, &Cw20QueryMsg::Minter {}).unwrap_or(None);
    let mut accounts: Vec<String> = vec![];
    let mut start: Option<String> = None;
    loop {
        let page: AllAccountsResponse = match query_typed(w, c, &Cw20QueryMsg::AllAccounts { start_after: start.clone(), limit: Some(30) }) {
            Ok(p) => p,
            Err(e) => {
                errors.push(format!("{} accounts: {}", c, e));
                break;
            }
        };
        let n = page.accounts.len();
        if n == 0 {
            break;
        }
        start = Some(page.accounts[n - 1].clone());
        accounts.extend(page.accounts);
        if n < 30 {
            break;
        }
    }
    let mut bal = BTreeMap::new();
    let mut addrs: BTreeSet<String> = known.clone();
    addrs.extend(accounts.iter().cloned());
    for a in &addrs {
        match query_typed::<_, BalanceResponse>(w, c, &Cw20QueryMsg::Balance { address: a.clone() }) {
            Ok(b) => {
                if !b.balance.is_zero() {
                    bal.insert(a.clone(), b.balance.u128());
                }
            }
            Err(e) => errors.push(format!("{} balance {}: {}", c, a, e)),
        }
    }
    let mut allow = BTreeMap::new();
    for (ti, o, s) in allow_pairs {
        if *ti != t.idx() {
            continue;
        }
        if let Ok(a) = query_typed::<_, AllowanceResponse>(w, c, &Cw20QueryMsg::Allowance { owner: o.clone(), spender: s.clone() }) {
            allow.insert((o.clone(), s.clone()), a);
        }
    }
    Some(TokObs { supply: info.total_supply.u128(), minter: minter.map(|m| m.minter), accounts, bal, allow })
}

fn observe_reward(w: &World, known: &BTreeSet<String>, errors: &mut Vec<String>) -> Option<RewardObs> {
    let state: RewState = match query_typed(w, REWARD, &RewQ::State {}) {
        Ok(s) => s,
        Err(e) => {
            errors.push(format!("reward state: {}", e));
            return None;
        }
    };
    let config: basset::reward::ConfigResponse = match query_typed(w, REWARD, &RewQ::Config {}) {
        Ok(s) => s,
        Err(e) => {
            errors.push(format!("reward config: {}", e));
            return None;
        }
    };
    let mut holders: Vec<HolderResponse> = vec![];
    let mut start: Option<String> = None;
    loop {
        let page: HoldersResponse = match query_typed(w, REWARD, &RewQ::Holders { start_after: start.clone(), limit: Some(30) }) {
            Ok(p) => p,
            Err(e) => {
                errors.push(format!("reward holders: {}", e));
                break;
            }
        };
        let n = page.holders.len();
        if n == 0 {
            break;
        }
        start = Some(page.holders[n - 1].address.clone());
        holders.extend(page.holders);
        if n < 30 {
            break;
        }
    }
    let mut accrued = BTreeMap::new();
    let mut addrs: BTreeSet<String> = known.clone();
    addrs.extend(holders.iter().map(|h| h.address.clone()));
    for a in &addrs {
        match query_typed::<_, basset::reward::AccruedRewardsResponse>(w, REWARD, &RewQ::AccruedRewards { address: a.clone() }) {
            Ok(r) => {
                if !r.rewards.is_zero() {
                    accrued.insert(a.clone(), r.rewards.u128());
                }
            }
            Err(e) => errors.push(format!("reward accrued {}: {}", a, e)),
        }
    }
    Some(RewardObs { state, holders, accrued, config })
}
