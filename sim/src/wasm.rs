//! The wasm module of the simulated chain: contract table, depth-first dispatch of
//! `Response.messages`, queries that see the in-transaction state, all-or-nothing
//! commit, call-tree recording, injected aborts, panics treated as wasm traps.
//!
//! The six contracts of /repo run as real, unmodified code behind the seams CosmWasm
//! itself defines: `Storage`, `Api`, `Querier`, `Env`, and the returned `Response`.

use crate::chain::*;
use cosmwasm_std::testing::MockApi;
use cosmwasm_std::{
    from_json, to_json_binary, Addr, BankMsg, Fraction, BankQuery, Binary, BlockInfo, Coin, ContractInfo,
    ContractResult, CosmosMsg, Decimal, Deps, DepsMut, DistributionMsg, Empty, Env, MessageInfo,
    Order, Querier, QuerierResult, QuerierWrapper, QueryRequest, Record, ReplyOn, Response,
    StakingMsg, StakingQuery, Storage, SystemError, SystemResult, Timestamp, Uint128, Uint256,
    WasmMsg, WasmQuery,
};
use serde::{Deserialize, Serialize};
use serde_json::{json, Value};
use std::cell::Cell;
use std::panic::{catch_unwind, AssertUnwindSafe};

thread_local! {
    pub static IN_CONTRACT: Cell<bool> = Cell::new(false);
}

/// Install a panic hook that stays silent for panics raised inside contract code
/// (they are wasm traps: the transaction aborts) and prints everything else.
pub fn install_panic_hook() {
    let default = std::panic::take_hook();
    std::panic::set_hook(Box::new(move |info| {
        let quiet = IN_CONTRACT.with(|c| c.get());
        if !quiet || std::env::var("VERIF_PANIC_TRACE").is_ok() {
            default(info);
        }
    }));
}

// ------------------------------------------------------------------ storage

pub struct MemStore<'a>(pub &'a mut Store);
pub struct RoStore<'a>(pub &'a Store);

fn range_impl<'a>(
    s: &'a Store,
    start: Option<&[u8]>,
    end: Option<&[u8]>,
    order: Order,
) -> Box<dyn Iterator<Item = Record> + 'a> {
    use std::ops::Bound;
    let lo = match start {
        Some(x) => Bound::Included(x.to_vec()),
        None => Bound::Unbounded,
    };
    let hi = match end {
        Some(x) => Bound::Excluded(x.to_vec()),
        None => Bound::Unbounded,
    };
    if let (Bound::Included(a), Bound::Excluded(b)) = (&lo, &hi) {
        if a > b {
            return Box::new(std::iter::empty());
        }
    }
    let it = s.range((lo, hi)).map(|(k, v)| (k.clone(), v.clone()));
    match order {
        Order::Ascending => Box::new(it),
        Order::Descending => Box::new(it.rev()),
    }
}

impl<'a> Storage for MemStore<'a> {
    fn get(&self, key: &[u8]) -> Option<Vec<u8>> {
        self.0.get(key).cloned()
    }
    fn range<'b>(
        &'b self,
        start: Option<&[u8]>,
        end: Option<&[u8]>,
        order: Order,
    ) -> Box<dyn Iterator<Item = Record> + 'b> {
        range_impl(self.0, start, end, order)
    }
    fn set(&mut self, key: &[u8], value: &[u8]) {
        if value.is_empty() {
            panic!("storage: empty values are not supported by the chain");
        }
        self.0.insert(key.to_vec(), value.to_vec());
    }
    fn remove(&mut self, key: &[u8]) {
        self.0.remove(key);
    }
}

impl<'a> Storage for RoStore<'a> {
    fn get(&self, key: &[u8]) -> Option<Vec<u8>> {
        self.0.get(key).cloned()
    }
    fn range<'b>(
        &'b self,
        start: Option<&[u8]>,
        end: Option<&[u8]>,
        order: Order,
    ) -> Box<dyn Iterator<Item = Record> + 'b> {
        range_impl(self.0, start, end, order)
    }
    fn set(&mut self, _key: &[u8], _value: &[u8]) {
        panic!("write through read-only storage (query)");
    }
    fn remove(&mut self, _key: &[u8]) {
        panic!("write through read-only storage (query)");
    }
}

// ------------------------------------------------------------ transactions

#[derive(Clone, Debug, PartialEq, Serialize, Deserialize)]
pub struct Tx {
    pub sender: String,
    pub contract: String,
    pub msg: Value,
    #[serde(default, skip_serializing_if = "Vec::is_empty")]
    pub funds: Vec<Coin>,
}

impl Tx {
    pub fn new<T: Serialize>(sender: &str, contract: &str, msg: &T, funds: Vec<Coin>) -> Tx {
        Tx {
            sender: sender.to_string(),
            contract: contract.to_string(),
            msg: serde_json::to_value(msg).expect("msg serialises"),
            funds,
        }
    }
}

#[derive(Clone, Debug, PartialEq)]
pub enum MsgRec {
    Exec {
        contract: String,
        msg: Value,
        funds: Vec<(String, u128)>,
    },
    BankSend {
        to: String,
        coins: Vec<(String, u128)>,
    },
    Delegate {
        validator: String,
        amount: u128,
    },
    Undelegate {
        validator: String,
        amount: u128,
    },
    Redelegate {
        src: String,
        dst: String,
        amount: u128,
    },
    SetWithdrawAddress {
        address: String,
    },
    WithdrawReward {
        validator: String,
        paid: Vec<(String, u128)>,
    },
    Other(String),
}

#[derive(Clone, Debug, PartialEq)]
pub struct CallRec {
    pub idx: usize,
    pub depth: u32,
    pub parent: Option<usize>,
    pub sender: String,
    pub msg: MsgRec,
    /// the handler / module accepted the message (children may still have failed)
    pub ok: bool,
    pub err: Option<String>,
    pub attrs: Vec<(String, String)>,
    /// wasm executes: the callee's bank balances when its handler starts (funds included)
    pub bal_before: Vec<(String, u128)>,
}

impl CallRec {
    pub fn attr(&self, k: &str) -> Option<&str> {
        self.attrs.iter().find(|(a, _)| a == k).map(|(_, v)| v.as_str())
    }
    /// `Some((contract, variant, body))` for wasm executes
    pub fn exec(&self) -> Option<(&str, &str, &Value)> {
        if let MsgRec::Exec { contract, msg, .. } = &self.msg {
            if let Some(o) = msg.as_object() {
                if let Some((k, v)) = o.iter().next() {
                    return Some((contract.as_str(), k.as_str(), v));
                }
            }
            if let Some(s) = msg.as_str() {
                return Some((contract.as_str(), s, msg));
            }
        }
        None
    }
    pub fn is_exec(&self, contract: &str, variant: &str) -> bool {
        matches!(self.exec(), Some((c, v, _)) if c == contract && v == variant)
    }
    pub fn funds_of(&self, denom: &str) -> u128 {
        if let MsgRec::Exec { funds, .. } = &self.msg {
            funds.iter().filter(|f| f.0 == denom).map(|f| f.1).sum()
        } else {
            0
        }
    }
}

#[derive(Clone, Debug, PartialEq, Eq)]
pub enum ErrKind {
    /// a contract handler returned an error (or a message did not parse)
    Contract,
    /// bank / staking / distribution / wasm module rejected a message
    Chain,
    /// panic inside contract code = wasm trap
    Panic,
    /// injected out-of-gas abort
    Aborted,
    /// the simulator met something it does not model: the run is void (exit 2)
    Harness,
}

#[derive(Clone, Debug)]
pub struct TxOutcome {
    pub ok: bool,
    pub err: Option<String>,
    pub err_kind: Option<ErrKind>,
    /// index of the call that failed
    pub err_at: Option<usize>,
    pub calls: Vec<CallRec>,
}

impl TxOutcome {
    pub fn find<'a>(&'a self, contract: &'a str, variant: &'a str) -> impl Iterator<Item = &'a CallRec> + 'a {
        self.calls.iter().filter(move |c| c.is_exec(contract, variant))
    }
    pub fn children<'a>(&'a self, idx: usize) -> impl Iterator<Item = &'a CallRec> + 'a {
        self.calls.iter().filter(move |c| c.parent == Some(idx))
    }
    /// all records in the subtree rooted at idx (excluding idx itself), in dispatch order
    pub fn subtree(&self, idx: usize) -> Vec<&CallRec> {
        let d = self.calls[idx].depth;
        let mut out = vec![];
        for c in self.calls.iter().skip(idx + 1) {
            if c.depth <= d {
                break;
            }
            out.push(c);
        }
        out
    }
}

struct TxErr {
    kind: ErrKind,
    msg: String,
    at: usize,
}

pub fn api() -> MockApi {
    MockApi::default()
}

pub fn env_for(w: &World, contract: &str) -> Env {
    Env {
        block: BlockInfo {
            height: w.height,
            // real block times carry a sub-second part; it is a fixed function of the height (no PRNG
            // draw), non-zero for every height >= 1, so code that compares full timestamps where whole
            // seconds are meant meets the difference
            time: Timestamp::from_seconds(w.time).plus_nanos(1 + (w.height.wrapping_mul(618_033_989)) % 999_999_999),
            chain_id: "sim-1".to_string(),
        },
        transaction: None,
        contract: ContractInfo {
            address: Addr::unchecked(contract),
        },
    }
}

fn coins_to_pairs(c: &[Coin]) -> Vec<(String, u128)> {
    c.iter().map(|c| (c.denom.clone(), c.amount.u128())).collect()
}

// ------------------------------------------------------------------ querier

pub struct SimQuerier<'a> {
    pub w: &'a World,
}

fn sys_err(e: SystemError) -> QuerierResult {
    SystemResult::Err(e)
}
fn ok_bin(v: &Value) -> QuerierResult {
    SystemResult::Ok(ContractResult::Ok(Binary::from(serde_json::to_vec(v).unwrap())))
}

impl<'a> Querier for SimQuerier<'a> {
    fn raw_query(&self, bin_request: &[u8]) -> QuerierResult {
        let req: QueryRequest<Empty> = match from_json(bin_request) {
            Ok(r) => r,
            Err(e) => {
                return sys_err(SystemError::InvalidRequest {
                    error: e.to_string(),
                    request: Binary::from(bin_request),
                })
            }
        };
        match req {
            QueryRequest::Bank(BankQuery::Balance { address, denom }) => {
                let a = self.w.balance(&address, &denom);
                ok_bin(&json!({"amount": {"denom": denom, "amount": a.to_string()}}))
            }
            QueryRequest::Bank(BankQuery::AllBalances { address }) => {
                let v: Vec<Value> = self
                    .w
                    .all_balances(&address)
                    .into_iter()
                    .map(|(d, a)| json!({"denom": d, "amount": a.to_string()}))
                    .collect();
                ok_bin(&json!({ "amount": v }))
            }
            QueryRequest::Staking(StakingQuery::BondedDenom {}) => ok_bin(&json!({"denom": DENOM})),
            QueryRequest::Staking(StakingQuery::AllDelegations { delegator }) => {
                let v: Vec<Value> = self
                    .w
                    .delegations_of(&delegator)
                    .into_iter()
                    .map(|(val, a)| {
                        json!({"delegator": delegator, "validator": val,
                               "amount": {"denom": DENOM, "amount": a.to_string()}})
                    })
                    .collect();
                ok_bin(&json!({ "delegations": v }))
            }
            QueryRequest::Staking(StakingQuery::Delegation { delegator, validator }) => {
                let a = self.w.delegation(&delegator, &validator);
                if a == 0 {
                    ok_bin(&json!({ "delegation": null }))
                } else {
                    let can = self.w.can_redelegate(&delegator, &validator);
                    let rewards: Vec<Value> = self
                        .w
                        .distr
                        .pending
                        .get(&(delegator.clone(), validator.clone()))
                        .map(|m| {
                            m.iter()
                                .map(|(d, a)| json!({"denom": d, "amount": a.to_string()}))
                                .collect()
                        })
                        .unwrap_or_default();
                    ok_bin(&json!({"delegation": {
                        "delegator": delegator, "validator": validator,
                        "amount": {"denom": DENOM, "amount": a.to_string()},
                        "can_redelegate": {"denom": DENOM, "amount": can.to_string()},
                        "accumulated_rewards": rewards }}))
                }
            }
            QueryRequest::Staking(StakingQuery::AllValidators {}) => {
                let v: Vec<Value> = self
                    .w
                    .staking
                    .validators
                    .iter()
                    .filter(|a| !self.w.staking.jailed.contains(*a))
                    .map(|a| json!({"address": a, "commission": "0.1", "max_commission": "0.2", "max_change_rate": "0.01"}))
                    .collect();
                ok_bin(&json!({ "validators": v }))
            }
            QueryRequest::Staking(StakingQuery::Validator { address }) => {
                // cosmwasm-std: "Returns None if the validator is not part of the currently active validator set."
                if self.w.staking.validators.contains(&address) && !self.w.staking.jailed.contains(&address) {
                    ok_bin(&json!({"validator": {"address": address, "commission": "0.1", "max_commission": "0.2", "max_change_rate": "0.01"}}))
                } else {
                    ok_bin(&json!({ "validator": null }))
                }
            }
            QueryRequest::Wasm(WasmQuery::Smart { contract_addr, msg }) => {
                if !self.w.contracts.contains_key(&contract_addr) {
                    return sys_err(SystemError::NoSuchContract { addr: contract_addr });
                }
                match query_contract(self.w, &contract_addr, msg.as_slice()) {
                    Ok(b) => SystemResult::Ok(ContractResult::Ok(b)),
                    Err(e) => SystemResult::Ok(ContractResult::Err(e)),
                }
            }
            QueryRequest::Wasm(WasmQuery::ContractInfo { contract_addr }) => {
                if !self.w.contracts.contains_key(&contract_addr) {
                    return sys_err(SystemError::NoSuchContract { addr: contract_addr });
                }
                ok_bin(&json!({"code_id": 1, "creator": OWNER, "admin": null, "pinned": false, "ibc_port": null}))
            }
            QueryRequest::Wasm(WasmQuery::Raw { contract_addr, key }) => {
                match self.w.contracts.get(&contract_addr) {
                    None => sys_err(SystemError::NoSuchContract { addr: contract_addr }),
                    Some(c) => SystemResult::Ok(ContractResult::Ok(Binary::from(
                        c.storage.get(key.as_slice()).cloned().unwrap_or_default(),
                    ))),
                }
            }
            other => sys_err(SystemError::UnsupportedRequest {
                kind: format!("{:?}", other),
            }),
        }
    }
}

/// Smart query against the state of `w` (inside a transaction: the in-flight state).
pub fn query_contract(w: &World, contract: &str, msg: &[u8]) -> Result<Binary, String> {
    let inst = w
        .contracts
        .get(contract)
        .ok_or_else(|| format!("no such contract: {}", contract))?;
    let querier = SimQuerier { w };
    let a = api();
    let store = RoStore(&inst.storage);
    let env = env_for(w, contract);
    let kind = inst.kind;
    let was = IN_CONTRACT.with(|c| c.replace(true));
    let r = catch_unwind(AssertUnwindSafe(|| -> Result<Binary, String> {
        let deps = Deps {
            storage: &store,
            api: &a,
            querier: QuerierWrapper::new(&querier),
        };
        match kind {
            Kind::Hub => {
                let m = from_json(msg).map_err(|e| e.to_string())?;
                basset_sei_hub::contract::query(deps, env, m).map_err(|e| e.to_string())
            }
            Kind::Reward => {
                let m = from_json(msg).map_err(|e| e.to_string())?;
                basset_sei_reward::contract::query(deps, env, m).map_err(|e| e.to_string())
            }
            Kind::Dispatcher => {
                let m = from_json(msg).map_err(|e| e.to_string())?;
                basset_sei_rewards_dispatcher::contract::query(deps, env, m).map_err(|e| e.to_string())
            }
            Kind::Registry => {
                let m = from_json(msg).map_err(|e| e.to_string())?;
                basset_sei_validators_registry::contract::query(deps, env, m).map_err(|e| e.to_string())
            }
            Kind::BSei => {
                let m = from_json(msg).map_err(|e| e.to_string())?;
                basset_sei_token_bsei::contract::query(deps, env, m).map_err(|e| e.to_string())
            }
            Kind::StSei => {
                let m = from_json(msg).map_err(|e| e.to_string())?;
                basset_sei_token_stsei::contract::query(deps, env, m).map_err(|e| e.to_string())
            }
            Kind::Swap => swap_query(w, msg),
            Kind::Oracle => oracle_query(w, msg),
            Kind::Sink => Err("sink: no queries".to_string()),
            Kind::CfgStub => cfgstub_query(contract, msg),
        }
    }));
    IN_CONTRACT.with(|c| c.set(was));
    match r {
        Ok(x) => x,
        Err(p) => Err(format!("query panicked: {}", panic_msg(&p))),
    }
}

pub fn query_json<M: Serialize>(w: &World, contract: &str, msg: &M) -> Result<Value, String> {
    let b = serde_json::to_vec(msg).map_err(|e| e.to_string())?;
    let r = query_contract(w, contract, &b)?;
    serde_json::from_slice(r.as_slice()).map_err(|e| e.to_string())
}

pub fn query_typed<M: Serialize, R: serde::de::DeserializeOwned>(
    w: &World,
    contract: &str,
    msg: &M,
) -> Result<R, String> {
    let b = serde_json::to_vec(msg).map_err(|e| e.to_string())?;
    let r = query_contract(w, contract, &b)?;
    from_json(r.as_slice()).map_err(|e| e.to_string())
}

fn panic_msg(p: &Box<dyn std::any::Any + Send>) -> String {
    if let Some(s) = p.downcast_ref::<&str>() {
        s.to_string()
    } else if let Some(s) = p.downcast_ref::<String>() {
        s.clone()
    } else {
        "<non-string panic>".to_string()
    }
}

// ---------------------------------------------------------------- the stubs

fn dec_atomics(d: u128) -> Value {
    Value::String(Decimal::new(Uint128::new(d)).to_string())
}

pub fn oracle_rate(w: &World) -> Result<Decimal, String> {
    match w.ext.oracle_mode {
        OracleMode::Ok => Ok(Decimal::new(Uint128::new(w.ext.oracle_rate_atomics))),
        OracleMode::ZeroRate => Ok(Decimal::zero()),
        OracleMode::HugeRate => Ok(Decimal::new(Uint128::new(10u128.pow(36)))),
        OracleMode::TinyRate => Ok(Decimal::new(Uint128::new(1))),
        OracleMode::Error => Err("oracle: price feed unavailable".into()),
        OracleMode::Garbage => Err("garbage".into()),
    }
}

fn oracle_query(w: &World, msg: &[u8]) -> Result<Binary, String> {
    let m: basset::oracle_pyth::QueryMsg = from_json(msg).map_err(|e| e.to_string())?;
    let basset::oracle_pyth::QueryMsg::QueryExchangeRateByAssetLabel { base_label, quote_label } = m;
    if w.ext.oracle_mode == OracleMode::Garbage {
        return Ok(Binary::from(b"{\"rate\":[\"not\",\"a\",\"decimal\"]}".to_vec()));
    }
    let r = oracle_rate(w)?;
    let out = if base_label == DENOM && quote_label == REWARD_DENOM {
        r
    } else if base_label == REWARD_DENOM && quote_label == DENOM {
        r.inv().ok_or_else(|| "oracle: zero price".to_string())?
    } else {
        return Err(format!("oracle: unknown pair {}/{}", base_label, quote_label));
    };
    Ok(Binary::from(serde_json::to_vec(&Value::String(out.to_string())).unwrap()))
}

/// payout of the swap stub for `amount` of `from` into `to`; None = unsupported pair
pub fn swap_quote(w: &World, from: &str, to: &str, amount: u128) -> Result<u128, String> {
    let one = Uint256::from(10u128.pow(18));
    let r = Uint256::from(w.ext.oracle_rate_atomics);
    let slip = Uint256::from((1_000_000i64 + w.ext.swap_slip_ppm).max(0) as u128);
    let mil = Uint256::from(1_000_000u128);
    let a = Uint256::from(amount);
    let out: Uint256 = if from == DENOM && to == REWARD_DENOM {
        a * r * slip / (one * mil)
    } else if from == REWARD_DENOM && to == DENOM {
        if r.is_zero() {
            return Err("swap: zero price".into());
        }
        a * one * slip / (r * mil)
    } else if from == EXTRA_SWAP_DENOM && to == REWARD_DENOM {
        a * Uint256::from(w.ext.extra_price_atomics) / one
    } else if from == EXTRA_SWAP_DENOM && to == DENOM {
        if r.is_zero() {
            return Err("swap: zero price".into());
        }
        a * Uint256::from(w.ext.extra_price_atomics) / r
    } else if from == to {
        a
    } else {
        return Err(format!("swap: unsupported pair {} -> {}", from, to));
    };
    let out128: Uint128 = out.try_into().map_err(|_| "swap: overflow".to_string())?;
    let mut o = out128.u128();
    if w.ext.swap_extra_round_down && o > 0 {
        o -= 1;
    }
    Ok(o)
}

fn swap_query(w: &World, msg: &[u8]) -> Result<Binary, String> {
    use basset::swap_ext::{AssetInfo, SwapQueryMsg};
    match w.ext.swap_mode {
        SwapMode::Error => return Err("swap: pool halted".into()),
        SwapMode::Garbage => return Ok(Binary::from(b"{\"unexpected\":true}".to_vec())),
        _ => {}
    }
    let m: SwapQueryMsg = from_json(msg).map_err(|e| e.to_string())?;
    match m {
        SwapQueryMsg::QuerySimulation { asset_infos, offer_asset } => {
            let from = match &offer_asset.info {
                AssetInfo::NativeToken { denom } => denom.clone(),
                _ => return Err("swap: only native".into()),
            };
            let to = match &asset_infos[1] {
                AssetInfo::NativeToken { denom } => denom.clone(),
                _ => return Err("swap: only native".into()),
            };
            let out = swap_quote(w, &from, &to, offer_asset.amount.u128())?;
            Ok(Binary::from(
                // return_amount is what the swap pays (net); the pool also reports what it kept
                // (informational fields: 0.3 % commission, 0.1 % spread of the gross amount)
                serde_json::to_vec(&json!({"return_amount": out.to_string(), "spread_amount": (out / 1000).to_string(), "commission_amount": (out * 3 / 1000).to_string()}))
                    .unwrap(),
            ))
        }
        _ => Err("swap: unsupported query".into()),
    }
}

fn cfgstub_query(me: &str, _msg: &[u8]) -> Result<Binary, String> {
    // union of the hub's and the dispatcher's ConfigResponse (both are `{"config":{}}`)
    let v = json!({
        "owner": OWNER, "update_reward_index_addr": UPDATER,
        "reward_dispatcher_contract": me, "validators_registry_contract": null,
        "bsei_token_contract": BSEI, "stsei_token_contract": STSEI,
        "airdrop_registry_contract": null, "token_contract": BSEI,
        "hub_contract": me, "bsei_reward_contract": SINK,
        "stsei_reward_denom": DENOM, "bsei_reward_denom": REWARD_DENOM,
        "krp_keeper_address": KEEPER, "krp_keeper_rate": "0",
        "swap_contract": SWAP, "swap_denoms": [], "oracle_contract": ORACLE
    });
    Ok(Binary::from(serde_json::to_vec(&v).unwrap()))
}

// ------------------------------------------------------------------- engine

pub struct Engine {
    pub w: World,
    pub calls: Vec<CallRec>,
    abort_at: Option<usize>,
    dispatched: usize,
}

type HandlerResult = Result<Response, String>;

fn call_execute(kind: Kind, deps: DepsMut, env: Env, info: MessageInfo, msg: &[u8]) -> HandlerResult {
    match kind {
        Kind::Hub => {
            let m = from_json(msg).map_err(|e| e.to_string())?;
            basset_sei_hub::contract::execute(deps, env, info, m).map_err(|e| e.to_string())
        }
        Kind::Reward => {
            let m = from_json(msg).map_err(|e| e.to_string())?;
            basset_sei_reward::contract::execute(deps, env, info, m).map_err(|e| e.to_string())
        }
        Kind::Dispatcher => {
            let m = from_json(msg).map_err(|e| e.to_string())?;
            basset_sei_rewards_dispatcher::contract::execute(deps, env, info, m).map_err(|e| e.to_string())
        }
        Kind::Registry => {
            let m = from_json(msg).map_err(|e| e.to_string())?;
            basset_sei_validators_registry::contract::execute(deps, env, info, m).map_err(|e| e.to_string())
        }
        Kind::BSei => {
            let m = from_json(msg).map_err(|e| e.to_string())?;
            basset_sei_token_bsei::contract::execute(deps, env, info, m).map_err(|e| e.to_string())
        }
        Kind::StSei => {
            let m = from_json(msg).map_err(|e| e.to_string())?;
            basset_sei_token_stsei::contract::execute(deps, env, info, m).map_err(|e| e.to_string())
        }
        Kind::Sink | Kind::CfgStub => Ok(Response::new()),
        Kind::Swap | Kind::Oracle => unreachable!("native stubs are handled by the engine"),
    }
}

/// `reply` entry points are optional: none of the shipped contracts exports one, a changed
/// contract may. Inside each function below a glob import of the contract's module takes
/// precedence over the module-level fallback of the same name, so the contract's own `reply`
/// is called when it exists and the fallback (what wasmd does for a missing export) otherwise.
mod reply_shim {
    use cosmwasm_std::{DepsMut, Env, Reply, Response, StdError, StdResult};
    #[allow(dead_code)]
    pub fn reply(_d: DepsMut, _e: Env, _m: Reply) -> StdResult<Response> {
        Err(StdError::generic_err("contract exports no reply entry point"))
    }
    macro_rules! shim {
        ($name:ident, $($path:tt)+) => {
            pub fn $name(d: DepsMut, e: Env, m: Reply) -> Result<Response, String> {
                #[allow(unused_imports)]
                use $($path)+::*;
                reply(d, e, m).map_err(|e| e.to_string())
            }
        };
    }
    shim!(hub, basset_sei_hub::contract);
    shim!(reward, basset_sei_reward::contract);
    shim!(dispatcher, basset_sei_rewards_dispatcher::contract);
    shim!(registry, basset_sei_validators_registry::contract);
    shim!(bsei, basset_sei_token_bsei::contract);
    shim!(stsei, basset_sei_token_stsei::contract);
}

fn call_reply(kind: Kind, deps: DepsMut, env: Env, msg: cosmwasm_std::Reply) -> HandlerResult {
    match kind {
        Kind::Hub => reply_shim::hub(deps, env, msg),
        Kind::Reward => reply_shim::reward(deps, env, msg),
        Kind::Dispatcher => reply_shim::dispatcher(deps, env, msg),
        Kind::Registry => reply_shim::registry(deps, env, msg),
        Kind::BSei => reply_shim::bsei(deps, env, msg),
        Kind::StSei => reply_shim::stsei(deps, env, msg),
        _ => Err("stub contract has no reply entry point".into()),
    }
}

pub fn call_instantiate(kind: Kind, deps: DepsMut, env: Env, info: MessageInfo, msg: &[u8]) -> HandlerResult {
    match kind {
        Kind::Hub => {
            let m = from_json(msg).map_err(|e| e.to_string())?;
            basset_sei_hub::contract::instantiate(deps, env, info, m).map_err(|e| e.to_string())
        }
        Kind::Reward => {
            let m = from_json(msg).map_err(|e| e.to_string())?;
            basset_sei_reward::contract::instantiate(deps, env, info, m).map_err(|e| e.to_string())
        }
        Kind::Dispatcher => {
            let m = from_json(msg).map_err(|e| e.to_string())?;
            basset_sei_rewards_dispatcher::contract::instantiate(deps, env, info, m).map_err(|e| e.to_string())
        }
        Kind::Registry => {
            let m = from_json(msg).map_err(|e| e.to_string())?;
            basset_sei_validators_registry::contract::instantiate(deps, env, info, m).map_err(|e| e.to_string())
        }
        Kind::BSei => {
            let m = from_json(msg).map_err(|e| e.to_string())?;
            basset_sei_token_bsei::contract::instantiate(deps, env, info, m).map_err(|e| e.to_string())
        }
        Kind::StSei => {
            let m = from_json(msg).map_err(|e| e.to_string())?;
            basset_sei_token_stsei::contract::instantiate(deps, env, info, m).map_err(|e| e.to_string())
        }
        _ => Ok(Response::new()),
    }
}

impl Engine {
    fn fail(&mut self, idx: usize, kind: ErrKind, msg: String) -> TxErr {
        self.calls[idx].err = Some(msg.clone());
        TxErr { kind, msg, at: idx }
    }

    fn push(&mut self, depth: u32, parent: Option<usize>, sender: &str, msg: MsgRec) -> Result<usize, TxErr> {
        let idx = self.calls.len();
        self.calls.push(CallRec {
            idx,
            depth,
            parent,
            sender: sender.to_string(),
            msg,
            ok: false,
            err: None,
            attrs: vec![],
            bal_before: vec![],
        });
        if let Some(k) = self.abort_at {
            if self.dispatched == k {
                return Err(self.fail(idx, ErrKind::Aborted, format!("out of gas (injected after {} messages)", k)));
            }
        }
        self.dispatched += 1;
        Ok(idx)
    }

    fn exec(
        &mut self,
        sender: &str,
        contract: &str,
        msg: &[u8],
        funds: &[Coin],
        depth: u32,
        parent: Option<usize>,
    ) -> Result<(), TxErr> {
        let msg_val: Value = serde_json::from_slice(msg).unwrap_or(Value::String(format!("<non-json {} bytes>", msg.len())));
        let idx = self.push(
            depth,
            parent,
            sender,
            MsgRec::Exec {
                contract: contract.to_string(),
                msg: msg_val,
                funds: coins_to_pairs(funds),
            },
        )?;
        let kind = match self.w.contracts.get(contract) {
            Some(c) => c.kind,
            None => {
                return Err(self.fail(idx, ErrKind::Chain, format!("wasm: no such contract: {}", contract)));
            }
        };
        // funds move before the callee runs; zero coins are dropped
        let pairs: Vec<(String, u128)> = coins_to_pairs(funds).into_iter().filter(|c| c.1 > 0).collect();
        if let Err(e) = self.w.transfer(sender, contract, &pairs) {
            return Err(self.fail(idx, ErrKind::Chain, e));
        }
        self.calls[idx].bal_before = self.w.all_balances(contract);
        let info_funds: Vec<Coin> = pairs.iter().map(|(d, a)| Coin::new(*a, d.clone())).collect();
        let info = MessageInfo {
            sender: Addr::unchecked(sender),
            funds: info_funds,
        };
        match kind {
            Kind::Swap => return self.exec_swap(idx, sender, contract, msg, &pairs),
            Kind::Oracle => {
                return Err(self.fail(idx, ErrKind::Contract, "oracle: no execute".into()));
            }
            _ => {}
        }
        let env = env_for(&self.w, contract);
        let mut store: Store = self.w.contracts[contract].storage.clone();
        let a = api();
        let res = {
            let querier = SimQuerier { w: &self.w };
            let was = IN_CONTRACT.with(|c| c.replace(true));
            let r = catch_unwind(AssertUnwindSafe(|| {
                let mut ms = MemStore(&mut store);
                let deps = DepsMut {
                    storage: &mut ms,
                    api: &a,
                    querier: QuerierWrapper::new(&querier),
                };
                call_execute(kind, deps, env, info, msg)
            }));
            IN_CONTRACT.with(|c| c.set(was));
            r
        };
        let resp = match res {
            Ok(Ok(r)) => r,
            Ok(Err(e)) => return Err(self.fail(idx, ErrKind::Contract, e)),
            Err(p) => {
                let m = panic_msg(&p);
                return Err(self.fail(idx, ErrKind::Panic, format!("wasm trap: {}", m)));
            }
        };
        self.w.contracts.get_mut(contract).unwrap().storage = store;
        self.calls[idx].ok = true;
        self.calls[idx].attrs = resp.attributes.iter().map(|a| (a.key.clone(), a.value.clone())).collect();
        if kind == Kind::Hub {
            // observation point inside the transaction: the hub's stored pool totals (public raw
            // storage) and its delegations right after this handler, before its messages run
            if let Some(st) = self.w.contracts[contract].storage.get(crate::obs::HUB_STATE_KEY).and_then(|b| from_json::<basset::hub::State>(b).ok()) {
                let d = self.w.total_delegated(contract);
                self.calls[idx].attrs.push(("sim:books_b".into(), st.total_bond_bsei_amount.to_string()));
                self.calls[idx].attrs.push(("sim:books_s".into(), st.total_bond_stsei_amount.to_string()));
                self.calls[idx].attrs.push(("sim:delegated".into(), d.to_string()));
            }
        }
        self.run_submessages(contract, kind, idx, depth, resp.messages, 0)
    }

    /// Dispatch the messages of a Response in order, with CosmWasm's submessage semantics: a
    /// failing submessage whose caller asked for a reply on error is rolled back on its own
    /// (state as before that submessage) and reported to the caller's `reply` entry point; the
    /// transaction continues iff that returns Ok. Injected out-of-gas aborts and harness errors
    /// are never catchable.
    fn run_submessages(&mut self, contract: &str, kind: Kind, idx: usize, depth: u32, messages: Vec<cosmwasm_std::SubMsg>, nesting: u32) -> Result<(), TxErr> {
        if nesting > 8 {
            return Err(self.fail(idx, ErrKind::Harness, "reply chain deeper than 8".into()));
        }
        for sub in messages {
            if sub.reply_on == ReplyOn::Never {
                self.dispatch(contract, sub.msg, depth + 1, Some(idx))?;
                continue;
            }
            let snapshot = self.w.clone();
            let first = self.calls.len();
            let r = self.dispatch(contract, sub.msg, depth + 1, Some(idx));
            let result = match r {
                Ok(()) => {
                    if sub.reply_on == ReplyOn::Error {
                        continue;
                    }
                    cosmwasm_std::SubMsgResult::Ok(cosmwasm_std::SubMsgResponse { events: vec![], data: None })
                }
                Err(te) => {
                    if matches!(te.kind, ErrKind::Aborted | ErrKind::Harness) || sub.reply_on == ReplyOn::Success {
                        return Err(te);
                    }
                    // roll the submessage back: the world, and the record of what it did
                    self.w = snapshot;
                    for c in self.calls.iter_mut().skip(first) {
                        if c.ok {
                            c.ok = false;
                            c.attrs.push(("sim:reverted".into(), "submessage failed and was caught by reply".into()));
                        }
                    }
                    cosmwasm_std::SubMsgResult::Err(te.msg)
                }
            };
            let ok = matches!(result, cosmwasm_std::SubMsgResult::Ok(_));
            let ridx = self.push(depth + 1, Some(idx), contract, MsgRec::Other(format!("reply:{}:id={}:{}", contract, sub.id, if ok { "ok" } else { "err" })))?;
            let env = env_for(&self.w, contract);
            let mut store: Store = self.w.contracts[contract].storage.clone();
            let a = api();
            let res = {
                let querier = SimQuerier { w: &self.w };
                let was = IN_CONTRACT.with(|c| c.replace(true));
                let r = catch_unwind(AssertUnwindSafe(|| {
                    let mut ms = MemStore(&mut store);
                    let deps = DepsMut { storage: &mut ms, api: &a, querier: QuerierWrapper::new(&querier) };
                    call_reply(kind, deps, env, cosmwasm_std::Reply { id: sub.id, result })
                }));
                IN_CONTRACT.with(|c| c.set(was));
                r
            };
            let resp = match res {
                Ok(Ok(r)) => r,
                Ok(Err(e)) => return Err(self.fail(ridx, ErrKind::Contract, e)),
                Err(p) => {
                    let m = panic_msg(&p);
                    return Err(self.fail(ridx, ErrKind::Panic, format!("wasm trap: {}", m)));
                }
            };
            self.w.contracts.get_mut(contract).unwrap().storage = store;
            self.calls[ridx].ok = true;
            self.calls[ridx].attrs = resp.attributes.iter().map(|a| (a.key.clone(), a.value.clone())).collect();
            self.run_submessages(contract, kind, ridx, depth + 1, resp.messages, nesting + 1)?;
        }
        Ok(())
    }

    fn exec_swap(
        &mut self,
        idx: usize,
        sender: &str,
        _me: &str,
        msg: &[u8],
        funds: &[(String, u128)],
    ) -> Result<(), TxErr> {
        use basset::swap_ext::SwapExecteMsg;
        match self.w.ext.swap_mode {
            SwapMode::Error => return Err(self.fail(idx, ErrKind::Contract, "swap: pool halted".into())),
            SwapMode::Garbage => return Err(self.fail(idx, ErrKind::Contract, "swap: Error parsing into type".into())),
            _ => {}
        }
        let m: SwapExecteMsg = match from_json(msg) {
            Ok(m) => m,
            Err(e) => return Err(self.fail(idx, ErrKind::Contract, e.to_string())),
        };
        let SwapExecteMsg::SwapDenom { from_coin, target_denom, to_address } = m;
        let sent: u128 = funds.iter().filter(|f| f.0 == from_coin.denom).map(|f| f.1).sum();
        if sent != from_coin.amount.u128() || funds.iter().any(|f| f.0 != from_coin.denom) {
            return Err(self.fail(idx, ErrKind::Contract, "swap: attached funds do not match from_coin".into()));
        }
        if sent == 0 {
            return Err(self.fail(idx, ErrKind::Contract, "swap: zero offer".into()));
        }
        let out = match swap_quote(&self.w, &from_coin.denom, &target_denom, sent) {
            Ok(o) => o,
            Err(e) => return Err(self.fail(idx, ErrKind::Contract, e)),
        };
        let to = to_address.unwrap_or_else(|| sender.to_string());
        let (paid_denom, paid) = match self.w.ext.swap_mode {
            SwapMode::PaysNothing => (target_denom.clone(), 0),
            SwapMode::PaysWrongDenom => (JUNK_DENOM.to_string(), out),
            _ => (target_denom.clone(), out),
        };
        // unlimited liquidity: the stub mints what it pays
        self.w.credit(&to, &paid_denom, paid);
        self.calls[idx].ok = true;
        self.calls[idx].attrs = vec![
            ("offer_denom".into(), from_coin.denom.clone()),
            ("offer_amount".into(), sent.to_string()),
            ("ask_denom".into(), target_denom),
            ("paid_denom".into(), paid_denom),
            ("paid_amount".into(), paid.to_string()),
            ("paid_to".into(), to),
        ];
        Ok(())
    }

    fn dispatch(&mut self, sender: &str, msg: CosmosMsg, depth: u32, parent: Option<usize>) -> Result<(), TxErr> {
        match msg {
            CosmosMsg::Wasm(WasmMsg::Execute { contract_addr, msg, funds }) => {
                self.exec(sender, &contract_addr, msg.as_slice(), &funds, depth, parent)
            }
            CosmosMsg::Bank(BankMsg::Send { to_address, amount }) => {
                let coins = coins_to_pairs(&amount);
                let idx = self.push(depth, parent, sender, MsgRec::BankSend { to: to_address.clone(), coins: coins.clone() })?;
                match self.w.bank_send(sender, &to_address, &coins) {
                    Ok(()) => {
                        self.calls[idx].ok = true;
                        Ok(())
                    }
                    Err(e) => Err(self.fail(idx, ErrKind::Chain, e)),
                }
            }
            CosmosMsg::Staking(StakingMsg::Delegate { validator, amount }) => {
                let idx = self.push(depth, parent, sender, MsgRec::Delegate { validator: validator.clone(), amount: amount.amount.u128() })?;
                match self.w.delegate(sender, &validator, &amount.denom, amount.amount.u128()) {
                    Ok(paid) => {
                        self.calls[idx].ok = true;
                        self.calls[idx].attrs = paid.into_iter().map(|(d, a)| (format!("hook_paid:{}", d), a.to_string())).collect();
                        Ok(())
                    }
                    Err(e) => Err(self.fail(idx, ErrKind::Chain, e)),
                }
            }
            CosmosMsg::Staking(StakingMsg::Undelegate { validator, amount }) => {
                let idx = self.push(depth, parent, sender, MsgRec::Undelegate { validator: validator.clone(), amount: amount.amount.u128() })?;
                match self.w.undelegate(sender, &validator, &amount.denom, amount.amount.u128()) {
                    Ok(paid) => {
                        self.calls[idx].ok = true;
                        self.calls[idx].attrs = paid.into_iter().map(|(d, a)| (format!("hook_paid:{}", d), a.to_string())).collect();
                        Ok(())
                    }
                    Err(e) => Err(self.fail(idx, ErrKind::Chain, e)),
                }
            }
            CosmosMsg::Staking(StakingMsg::Redelegate { src_validator, dst_validator, amount }) => {
                let idx = self.push(
                    depth,
                    parent,
                    sender,
                    MsgRec::Redelegate { src: src_validator.clone(), dst: dst_validator.clone(), amount: amount.amount.u128() },
                )?;
                match self.w.redelegate(sender, &src_validator, &dst_validator, &amount.denom, amount.amount.u128()) {
                    Ok(paid) => {
                        self.calls[idx].ok = true;
                        self.calls[idx].attrs = paid.into_iter().map(|(d, a)| (format!("hook_paid:{}", d), a.to_string())).collect();
                        Ok(())
                    }
                    Err(e) => Err(self.fail(idx, ErrKind::Chain, e)),
                }
            }
            CosmosMsg::Distribution(DistributionMsg::SetWithdrawAddress { address }) => {
                let idx = self.push(depth, parent, sender, MsgRec::SetWithdrawAddress { address: address.clone() })?;
                match self.w.set_withdraw_address(sender, &address) {
                    Ok(()) => {
                        self.calls[idx].ok = true;
                        Ok(())
                    }
                    Err(e) => Err(self.fail(idx, ErrKind::Chain, e)),
                }
            }
            CosmosMsg::Distribution(DistributionMsg::WithdrawDelegatorReward { validator }) => {
                let idx = self.push(depth, parent, sender, MsgRec::WithdrawReward { validator: validator.clone(), paid: vec![] })?;
                match self.w.withdraw_delegator_reward(sender, &validator) {
                    Ok(paid) => {
                        self.calls[idx].ok = true;
                        self.calls[idx].msg = MsgRec::WithdrawReward { validator, paid };
                        Ok(())
                    }
                    Err(e) => Err(self.fail(idx, ErrKind::Chain, e)),
                }
            }
            other => {
                let idx = self.push(depth, parent, sender, MsgRec::Other(format!("{:?}", other)))?;
                Err(self.fail(idx, ErrKind::Harness, "message kind not modelled by the simulator".into()))
            }
        }
    }
}

/// Execute one transaction against `w`. Returns the new world iff the whole call tree
/// succeeded; `w` itself is never touched (all-or-nothing commit).
pub fn run_tx(w: &World, tx: &Tx, abort_at: Option<usize>) -> (Option<World>, TxOutcome) {
    let mut e = Engine {
        w: w.clone(),
        calls: vec![],
        abort_at,
        dispatched: 0,
    };
    let msg = serde_json::to_vec(&tx.msg).unwrap();
    let r = e.exec(&tx.sender, &tx.contract, &msg, &tx.funds, 0, None);
    match r {
        Ok(()) => (
            Some(e.w),
            TxOutcome { ok: true, err: None, err_kind: None, err_at: None, calls: e.calls },
        ),
        Err(te) => (
            None,
            TxOutcome { ok: false, err: Some(te.msg), err_kind: Some(te.kind), err_at: Some(te.at), calls: e.calls },
        ),
    }
}

/// Instantiate a contract at a fixed address (genesis). The response's messages are
/// dispatched like any other (the hub's UpdateConfig emits SetWithdrawAddress, but
/// instantiates in this code base emit nothing).
pub fn instantiate<M: Serialize>(w: &mut World, addr: &str, kind: Kind, sender: &str, msg: &M) -> Result<(), String> {
    if w.contracts.contains_key(addr) {
        return Err(format!("address taken: {}", addr));
    }
    let bytes = serde_json::to_vec(msg).map_err(|e| e.to_string())?;
    let mut store = Store::new();
    let env = env_for(w, addr);
    let a = api();
    let res = {
        let querier = SimQuerier { w };
        let was = IN_CONTRACT.with(|c| c.replace(true));
        let r = catch_unwind(AssertUnwindSafe(|| {
            let mut ms = MemStore(&mut store);
            let deps = DepsMut { storage: &mut ms, api: &a, querier: QuerierWrapper::new(&querier) };
            let info = MessageInfo { sender: Addr::unchecked(sender), funds: vec![] };
            call_instantiate(kind, deps, env, info, &bytes)
        }));
        IN_CONTRACT.with(|c| c.set(was));
        r
    };
    match res {
        Ok(Ok(resp)) => {
            if !resp.messages.is_empty() {
                return Err("instantiate returned messages (not modelled)".into());
            }
            w.contracts.insert(addr.to_string(), ContractInst { kind, storage: store });
            Ok(())
        }
        Ok(Err(e)) => Err(e),
        Err(p) => Err(format!("wasm trap: {}", panic_msg(&p))),
    }
}

pub fn add_stub(w: &mut World, addr: &str, kind: Kind) {
    w.contracts.insert(addr.to_string(), ContractInst { kind, storage: Store::new() });
}

#[allow(dead_code)]
pub fn bin<T: Serialize>(t: &T) -> Binary {
    to_json_binary(t).unwrap()
}
