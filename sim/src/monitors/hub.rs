//! C07 (claims ledger), C01 (funding / exact payout / exactly once), C08 (time-lock and
//! batch lifecycle).

use super::{hub_liquid, released_claim_value, viol, Mon};
use crate::chain::*;
use crate::obs::{observe, HubObs};
use crate::ops::{Op, Step, Tok};
use crate::refmath::*;
use crate::sim::{Stats, StepCtx, Violation};
use crate::wasm::{run_tx, CallRec, MsgRec};
use cosmwasm_std::Binary;
use std::collections::{BTreeMap, BTreeSet};

pub struct HubReceive<'a> {
    pub rec: &'a CallRec,
    pub token: Option<Tok>,
    pub cw20_sender: String,
    pub amount: u128,
    pub hook: String,
}

pub fn hub_receives<'a>(ctx: &'a StepCtx) -> Vec<HubReceive<'a>> {
    let mut v = vec![];
    let (b, st) = match &ctx.pre.hub {
        Some(h) => (h.config.bsei_token_contract.clone(), h.config.stsei_token_contract.clone()),
        None => return v,
    };
    if let Some(out) = ctx.out {
        for c in &out.calls {
            if let Some((HUB, "receive", body)) = c.exec() {
                let token = if Some(&c.sender) == b.as_ref() {
                    Some(Tok::B)
                } else if Some(&c.sender) == st.as_ref() {
                    Some(Tok::St)
                } else {
                    None
                };
                let amount = body.get("amount").and_then(|a| a.as_str()).and_then(|s| s.parse::<u128>().ok()).unwrap_or(0);
                let cw20_sender = body.get("sender").and_then(|a| a.as_str()).unwrap_or("").to_string();
                let hook = body
                    .get("msg")
                    .and_then(|m| m.as_str())
                    .and_then(|s| Binary::from_base64(s).ok())
                    .and_then(|b| serde_json::from_slice::<serde_json::Value>(b.as_slice()).ok())
                    .and_then(|v| v.as_object().and_then(|o| o.keys().next().cloned()))
                    .unwrap_or_default();
                v.push(HubReceive { rec: c, token, cw20_sender, amount, hook });
            }
        }
    }
    v
}

fn req_map(h: &HubObs) -> BTreeMap<(String, u64), (u128, u128)> {
    let mut m = BTreeMap::new();
    for (a, rs) in &h.requests {
        for (b, x, y) in rs {
            m.insert((a.clone(), *b), (*x, *y));
        }
    }
    m
}

// ======================================================================= C11 (state invariant)

/// in every reachable state: a hub that still holds legacy wait-list entries is paused.
/// (E7 worlds start paused; UpdateParams refuses to unpause and the migration unpauses
/// only after the last entry has moved.) Also: a migration step moves at most `limit`
/// entries and never drops one.
pub fn c11_legacy_guard(_m: &mut Mon, ctx: &StepCtx, stats: &mut Stats, out: &mut Vec<Violation>) {
    let (pre, post) = match (&ctx.pre.hub, &ctx.post.hub) {
        (Some(a), Some(b)) => (a, b),
        _ => return,
    };
    if post.legacy_wait_entries == 0 && pre.legacy_wait_entries == 0 {
        return;
    }
    stats.check("c11_legacy_guard");
    if post.legacy_wait_entries > 0 && !post.params.paused.unwrap_or(false) {
        viol(out, "C11", "never_unpaused_with_legacy_entries", ctx.idx, "hub:unpaused_with_legacy_entries", format!("hub is not paused although {} legacy wait-list entries remain (after {:?})", post.legacy_wait_entries, ctx.top()));
    }
    if post.legacy_wait_entries > 1000 {
        stats.probe("c11_legacy_list_beyond_default_page");
    }
    if post.legacy_wait_entries != pre.legacy_wait_entries {
        if let Some((HUB, "migrate_unbond_wait_list")) = ctx.top() {
            stats.probe("c11_migration_moved_entries");
            if post.legacy_wait_entries > 0 {
                stats.probe("c11_migration_partial");
            }
        } else {
            viol(out, "C11", "legacy_entries_change_only_by_migration", ctx.idx, "hub:legacy_entries_changed", format!("legacy entries {} -> {} in step {:?}", pre.legacy_wait_entries, post.legacy_wait_entries, ctx.top()));
        }
    }
}

// ======================================================================= C07

pub fn c07_claims(m: &mut Mon, ctx: &StepCtx, stats: &mut Stats, out: &mut Vec<Violation>) {
    let (pre, post) = match (&ctx.pre.hub, &ctx.post.hub) {
        (Some(a), Some(b)) => (a, b),
        _ => return,
    };
    let pre_req = req_map(pre);
    let post_req = req_map(post);
    let mut explained: BTreeSet<(String, u64)> = BTreeSet::new();

    if ctx.committed() {
        let recs = hub_receives(ctx);
        for r in &recs {
            if !r.rec.ok {
                continue;
            }
            let tok = match r.token {
                Some(t) => t,
                None => {
                    viol(out, "C07", "receive_only_from_registered_tokens", ctx.idx, "hub.Receive:foreign_token", format!("hub accepted a Receive hook from {}", r.rec.sender));
                    continue;
                }
            };
            if r.hook != "unbond" {
                continue;
            }
            stats.check("c07_unbond_accepted");
            let batch = pre.batch.id;
            let key = (r.cw20_sender.clone(), batch);
            let before = pre_req.get(&key).copied().unwrap_or((0, 0));
            let after = post_req.get(&key).copied().unwrap_or((0, 0));
            let (g_b, g_st) = (after.0.wrapping_sub(before.0), after.1.wrapping_sub(before.1));
            let attr_g = r.rec.attr("unbonded_amount").and_then(|s| s.parse::<u128>().ok());
            // supply drops by exactly the amount sent
            if let (Some(tp), Some(tq)) = (ctx.pre.t(tok), ctx.post.t(tok)) {
                if tp.supply.checked_sub(r.amount) != Some(tq.supply) {
                    viol(out, "C07", "unbond_burns_exactly_amount", ctx.idx, "hub.Receive{Unbond}:supply_delta", format!("{:?} supply {} -> {} for unbond of {}", tok, tp.supply, tq.supply, r.amount));
                }
            }
            let (g, other) = match tok {
                Tok::B => (g_b, g_st),
                Tok::St => (g_st, g_b),
            };
            if other != 0 || after.0 < before.0 || after.1 < before.1 {
                viol(out, "C07", "claim_in_right_column", ctx.idx, "hub.Receive{Unbond}:wrong_column", format!("claim of {} batch {} went {:?} -> {:?} for a {:?} unbond", r.cw20_sender, batch, before, after, tok));
            }
            let fee_rate = atomics(pre.params.peg_recovery_fee);
            let lo = match tok {
                Tok::St => r.amount,
                Tok::B => r.amount - mul_rate(r.amount, fee_rate).unwrap_or(0).min(r.amount),
            };
            if g > r.amount || g < lo {
                viol(out, "C07", "claim_equals_amount_less_fee", ctx.idx, "hub.Receive{Unbond}:claim_growth", format!("unbond of {} {:?} by {} credited {} (allowed {}..={})", r.amount, tok, r.cw20_sender, g, lo, r.amount));
            }
            if let Some(ag) = attr_g {
                if ag != g {
                    viol(out, "C07", "claim_matches_reported_amount", ctx.idx, "hub.Receive{Unbond}:attr_mismatch", format!("hub reported unbonded_amount {} but the claim grew by {}", ag, g));
                }
            }
            explained.insert(key.clone());
            // ledger
            let e = m.claims.entry(key).or_insert((0, 0));
            let t = m.batch_total.entry(batch).or_insert((0, 0));
            match tok {
                Tok::B => {
                    e.0 += g;
                    t.0 += g;
                }
                Tok::St => {
                    e.1 += g;
                    t.1 += g;
                }
            }
        }
        // removal by the owner's successful withdrawal
        if let Some((HUB, "withdraw_unbonded")) = ctx.top() {
            let signer = ctx.tx.map(|t| t.sender.clone()).unwrap_or_default();
            for ((a, b), v) in &pre_req {
                if *a == signer && !post_req.contains_key(&(a.clone(), *b)) {
                    explained.insert((a.clone(), *b));
                    // a claim may disappear only because its released batch was paid
                    let released = post.history.iter().any(|h| h.batch_id == *b && h.released);
                    if !released {
                        viol(out, "C07", "claims_removed_only_by_withdrawal_of_released_batch", ctx.idx, "hub.WithdrawUnbonded:unreleased_claim_removed", format!("{}'s claim {:?} on batch {} was removed although that batch is not released", a, v, b));
                        continue;
                    }
                    if let Some(l) = m.claims.remove(&(a.clone(), *b)) {
                        let p = m.batch_paid.entry(*b).or_insert((0, 0));
                        p.0 += l.0;
                        p.1 += l.1;
                    }
                }
            }
        }
        // legacy migration (E7 worlds)
        if let Some((HUB, "migrate_unbond_wait_list")) = ctx.top() {
            for (k, v) in &post_req {
                if pre_req.get(k) != Some(v) {
                    let expect: u128 = ctx.cfg.legacy_wait.iter().filter(|(u, b, _)| *u == k.0 && *b == k.1).map(|x| x.2.u128()).sum();
                    if *v != (expect, 0) {
                        viol(out, "C11", "migrated_entries_faithful", ctx.idx, "hub.MigrateUnbondWaitList:entry", format!("migrated entry {:?} = {:?}, legacy list says bSei {}", k, v, expect));
                    }
                    explained.insert(k.clone());
                    m.claims.insert(k.clone(), *v);
                }
            }
        }
    }
    // 3. requests change only through the two accepted paths
    let keys: BTreeSet<&(String, u64)> = pre_req.keys().chain(post_req.keys()).collect();
    for k in keys {
        if pre_req.get(k) != post_req.get(k) && !explained.contains(k) {
            viol(out, "C07", "claims_change_only_by_unbond_or_own_withdraw", ctx.idx, "hub.requests:unexplained_change", format!("claim {:?} changed {:?} -> {:?} in step {:?}", k, pre_req.get(k), post_req.get(k), ctx.top()));
        }
    }
    // 4. queries equal the shadow ledger
    stats.check("c07_ledger_compare");
    if m.claims != post_req {
        let diff: Vec<String> = m
            .claims
            .keys()
            .chain(post_req.keys())
            .filter(|k| m.claims.get(*k) != post_req.get(*k))
            .take(3)
            .map(|k| format!("{:?}: ledger {:?} hub {:?}", k, m.claims.get(k), post_req.get(k)))
            .collect();
        viol(out, "C07", "requests_equal_ledger", ctx.idx, "hub.UnbondRequests:ledger_mismatch", diff.join("; "));
    }
    // 4b. AllHistory reports every closed batch whatever the page size: read again in small
    // pages (cursor = last id of the previous page) and compare with the single large page
    if post.history.len() != pre.history.len() || ctx.idx % 8 == 0 {
        use basset::hub::{AllHistoryResponse, QueryMsg as HubQ};
        let page = 1 + (ctx.idx as u32 % 4);
        let mut paged: Vec<u64> = vec![];
        let mut start: Option<u64> = None;
        let mut err = None;
        for _ in 0..(post.history.len() + 2) {
            match crate::wasm::query_typed::<_, AllHistoryResponse>(ctx.post_w, HUB, &HubQ::AllHistory { start_from: start, limit: Some(page) }) {
                Ok(r) => {
                    if r.history.is_empty() {
                        break;
                    }
                    if r.history.len() > page as usize {
                        viol(out, "C07", "history_pages_respect_limit", ctx.idx, "hub.AllHistory:page_too_long", format!("limit {} returned {} entries", page, r.history.len()));
                    }
                    start = r.history.last().map(|h| h.batch_id);
                    paged.extend(r.history.iter().map(|h| h.batch_id));
                }
                Err(e) => {
                    err = Some(e);
                    break;
                }
            }
        }
        stats.check("c07_history_paging");
        let whole: Vec<u64> = post.history.iter().map(|h| h.batch_id).collect();
        if let Some(e) = err {
            viol(out, "C07", "history_query_works", ctx.idx, "hub.AllHistory:failed", format!("AllHistory(start {:?}, limit {}) failed: {}", start, page, e));
        } else if paged != whole {
            viol(out, "C07", "history_pages_report_every_batch", ctx.idx, "hub.AllHistory:paging", format!("AllHistory read in pages of {} gives batches {:?}, read in one page {:?} (current batch {})", page, paged, whole, post.batch.id));
        }
        if whole.windows(2).any(|w| w[0] >= w[1]) {
            viol(out, "C07", "history_pages_report_every_batch", ctx.idx, "hub.AllHistory:order", format!("AllHistory is not in ascending batch order: {:?}...", whole.iter().take(8).collect::<Vec<_>>()));
        }
        if whole.len() as u64 + 1 != post.batch.id {
            viol(out, "C07", "history_pages_report_every_batch", ctx.idx, "hub.AllHistory:incomplete", format!("AllHistory reports {} closed batches but the current batch is {}", whole.len(), post.batch.id));
        }
    }
    // 2. per batch sums
    let mut sums: BTreeMap<u64, (u128, u128)> = BTreeMap::new();
    for ((_, b), v) in &post_req {
        let e = sums.entry(*b).or_insert((0, 0));
        e.0 += v.0;
        e.1 += v.1;
    }
    let open = sums.get(&post.batch.id).copied().unwrap_or((0, 0));
    if open != (post.batch.requested_bsei_with_fee.u128(), post.batch.requested_stsei.u128()) {
        viol(out, "C07", "open_batch_total_equals_sum_of_claims", ctx.idx, "hub.CurrentBatch:sum_mismatch", format!("batch {} totals ({},{}) but claims sum to {:?}", post.batch.id, post.batch.requested_bsei_with_fee, post.batch.requested_stsei, open));
    }
    for h in &post.history {
        let rem = sums.get(&h.batch_id).copied().unwrap_or((0, 0));
        let paid = m.batch_paid.get(&h.batch_id).copied().unwrap_or((0, 0));
        if (rem.0 + paid.0, rem.1 + paid.1) != (h.bsei_amount.u128(), h.stsei_amount.u128()) {
            viol(out, "C07", "history_amount_equals_sum_of_claims", ctx.idx, "hub.AllHistory:sum_mismatch", format!("batch {} history ({},{}) but outstanding {:?} + paid {:?}", h.batch_id, h.bsei_amount, h.stsei_amount, rem, paid));
        }
        if let Some(t) = m.batch_total.get(&h.batch_id) {
            if *t != (h.bsei_amount.u128(), h.stsei_amount.u128()) {
                viol(out, "C07", "history_amount_equals_accepted_unbonds", ctx.idx, "hub.AllHistory:ledger_total", format!("batch {} history ({},{}) but accepted unbonds sum to {:?}", h.batch_id, h.bsei_amount, h.stsei_amount, t));
            }
        }
    }
}

// ======================================================================= C01

fn all_released_claims(h: &HubObs) -> u128 {
    h.requests.values().map(|r| released_claim_value(r, &h.history).0).sum()
}

pub fn c01_withdraw(m: &mut Mon, ctx: &StepCtx, stats: &mut Stats, out: &mut Vec<Violation>) {
    let (pre, post) = match (&ctx.pre.hub, &ctx.post.hub) {
        (Some(a), Some(b)) => (a, b),
        _ => return,
    };
    let l_pre = hub_liquid(ctx.pre_w);
    let l_post = hub_liquid(ctx.post_w);
    // ---- ledger of inflows
    match ctx.step {
        Step::Block { .. } => {
            for u in ctx.matured {
                if u.delegator == HUB {
                    m.inflow += u.amount;
                    if u.amount < u.initial {
                        m.inflow_slashed = true;
                        stats.probe("c01_slashed_unbonding_matured");
                    }
                    if u.amount == 0 {
                        stats.probe("c01_entry_slashed_to_zero");
                    }
                }
            }
        }
        Step::Env(crate::ops::EnvEv::Donate { to, denom, amount }) if to == HUB && denom == DENOM => {
            m.inflow += amount.u128();
            m.inflow_donated = true;
        }
        _ => {}
    }
    let mut paid_out = 0u128;
    if ctx.committed() {
        if let Some(o) = ctx.out {
            for c in &o.calls {
                if c.sender == HUB {
                    if let MsgRec::BankSend { coins, .. } = &c.msg {
                        paid_out += coins.iter().filter(|x| x.0 == DENOM).map(|x| x.1).sum::<u128>();
                    }
                }
            }
        }
        let gain = (l_post + paid_out).saturating_sub(l_pre);
        if gain > 0 {
            m.inflow += gain;
            m.inflow_donated = true;
            stats.probe("c01_coins_attached_to_hub_msg");
        }
    }

    let is_withdraw = matches!(ctx.top(), Some((HUB, "withdraw_unbonded")));
    // ---- 2, 4, 5: successful withdraw
    if is_withdraw && ctx.committed() {
        stats.check("c01_withdraw_committed");
        let signer = ctx.tx.map(|t| t.sender.clone()).unwrap_or_default();
        let o = ctx.out.unwrap();
        let pre_reqs = pre.requests.get(&signer).cloned().unwrap_or_default();
        let (expect, batches) = released_claim_value(&pre_reqs, &post.history);
        let sends: Vec<&CallRec> = o.calls.iter().filter(|c| c.sender == HUB && matches!(c.msg, MsgRec::BankSend { .. })).collect();
        // everything the hub sends goes to the signer, in the staking coin, and sums to the share
        let mut ok_payout = !sends.is_empty() && expect > 0;
        let mut total_sent = 0u128;
        for c in &sends {
            if let MsgRec::BankSend { to, coins } = &c.msg {
                ok_payout &= *to == signer && coins.iter().all(|x| x.0 == DENOM);
                total_sent += coins.iter().map(|x| x.1).sum::<u128>();
            }
        }
        ok_payout &= total_sent == expect;
        if !ok_payout {
            viol(out, "C01", "withdraw_pays_exact_recorded_share", ctx.idx, "hub.WithdrawUnbonded:payout", format!("{} withdrew; expected transfers summing to {} to the signer, saw {:?}", signer, expect, sends.iter().map(|c| &c.msg).collect::<Vec<_>>()));
        }
        let attach = ctx.tx.map(|t| t.funds.iter().filter(|c| c.denom == DENOM).map(|c| c.amount.u128()).sum::<u128>()).unwrap_or(0);
        if l_pre + attach != l_post + expect {
            viol(out, "C01", "hub_balance_drops_by_payout", ctx.idx, "hub.WithdrawUnbonded:balance_delta", format!("hub balance {} (+{} attached) -> {} but payout {}", l_pre, attach, l_post, expect));
        }
        let post_reqs = post.requests.get(&signer).cloned().unwrap_or_default();
        for r in &pre_reqs {
            let paid_now = batches.contains(&r.0);
            let still = post_reqs.iter().find(|x| x.0 == r.0);
            if paid_now {
                if still.is_some() {
                    viol(out, "C01", "paid_claim_is_removed", ctx.idx, "hub.WithdrawUnbonded:claim_not_removed", format!("{}'s claim on batch {} was paid but is still recorded", signer, r.0));
                }
                if !m.paid.insert((signer.clone(), r.0)) {
                    viol(out, "C01", "claim_never_paid_twice", ctx.idx, "hub.WithdrawUnbonded:double_pay", format!("{}'s claim on batch {} was paid a second time", signer, r.0));
                }
            } else if still != Some(r) {
                viol(out, "C01", "unreleased_claims_untouched", ctx.idx, "hub.WithdrawUnbonded:unreleased_touched", format!("{}'s un-released claim {:?} became {:?}", signer, r, still));
            }
        }
        // release group accounting
        let pre_released: BTreeSet<u64> = pre.history.iter().filter(|h| h.released).map(|h| h.batch_id).collect();
        let group: Vec<&basset::hub::UnbondHistoryResponse> = post.history.iter().filter(|h| h.released && !pre_released.contains(&h.batch_id)).collect();
        if !group.is_empty() {
            stats.check("c01_release_group");
            if group.len() >= 3 {
                stats.probe("c01_group_of_3plus_batches");
            }
            let budget = m.inflow;
            let ids: BTreeSet<u64> = group.iter().map(|h| h.batch_id).collect();
            let mut claims = 0u128;
            let mut n_claims = 0u128;
            // all users' claims on the group, taken from the pre-state (the signer's are gone afterwards)
            for (_, rs) in &pre.requests {
                let sel: Vec<(u64, u128, u128)> = rs.iter().filter(|r| ids.contains(&r.0)).cloned().collect();
                claims += released_claim_value(&sel, &post.history).0;
                n_claims += sel.iter().map(|r| (r.1 > 0) as u128 + (r.2 > 0) as u128).sum::<u128>();
            }
            let n_comp: u128 = group.iter().map(|h| (!h.bsei_amount.is_zero()) as u128 + (!h.stsei_amount.is_zero()) as u128).sum();
            if claims > budget {
                let zero = budget == 0;
                viol(
                    out,
                    "C01",
                    "group_claims_never_exceed_arrived_coins",
                    ctx.idx,
                    if zero { "hub.process_withdraw_rate:overcommit:arrived=0" } else { "hub.process_withdraw_rate:overcommit" },
                    format!("batches {:?} released together promise {} but only {} arrived since the previous release", ids, claims, budget),
                );
            }
            if !m.inflow_donated && !m.inflow_slashed {
                stats.check("c01_dust_lower_bound");
                if budget.saturating_sub(claims) > n_claims + n_comp {
                    viol(out, "C01", "dust_bounded_without_slashing", ctx.idx, "hub.process_withdraw_rate:dust", format!("batches {:?}: {} arrived, claims {} ({} claims, {} components)", ids, budget, claims, n_claims, n_comp));
                }
            } else if claims < budget {
                stats.probe("c01_surplus_or_loss_branch");
            }
            if budget == 0 {
                stats.probe("c01_release_with_zero_arrived");
            }
            // C06.2: loss / surplus spread pro-rata over the components of the group
            super::pricing::c06_group_spread(ctx, &group, budget, stats, out);
        }
        m.inflow = 0;
        m.inflow_donated = false;
        m.inflow_slashed = false;
    }
    // ---- 1. funding, every step
    stats.check("c01_funding");
    let claims_now = all_released_claims(post);
    if l_post < claims_now {
        viol(out, "C01", "released_claims_are_funded", ctx.idx, if l_post + 1 == claims_now { "hub:funding:short_by_1" } else { "hub:funding" }, format!("hub holds {} but released claims are worth {}", l_post, claims_now));
    }
    // ---- 3. must succeed
    // (a withdraw that attaches coins the signer does not have never reaches the hub)
    let never_reached_hub = ctx.out.map(|o| o.err_kind == Some(crate::wasm::ErrKind::Chain) && o.err_at == Some(0)).unwrap_or(false);
    if is_withdraw && !ctx.committed() && !ctx.abort_injected && !ctx.hub_paused_pre() && !never_reached_hub {
        let signer = ctx.tx.map(|t| t.sender.clone()).unwrap_or_default();
        let reqs = pre.requests.get(&signer).cloned().unwrap_or_default();
        let (v, _) = released_claim_value(&reqs, &pre.history);
        let err = ctx.out.and_then(|o| o.err.clone()).unwrap_or_default();
        if v >= 1 {
            let sig = if err.contains("insufficient funds") { "hub.WithdrawUnbonded:must_succeed:insufficient_funds" } else { "hub.WithdrawUnbonded:must_succeed" };
            viol(out, "C01", "withdraw_of_matured_claim_succeeds", ctx.idx, sig, format!("{} holds released claims worth {} but WithdrawUnbonded failed: {}", signer, v, err));
            // the same event is C09's "once the unbonding period has passed the holder's
            // WithdrawUnbonded succeeds whenever its claim is worth at least one base unit"
            viol(out, "C09", "matured_claim_is_withdrawable", ctx.idx, sig, format!("{} holds released claims worth {} but WithdrawUnbonded failed: {}", signer, v, err));
        } else {
            // due but not yet released: would the claim be worth >= 1 once released?
            let now = ctx.pre_w.time;
            let up = pre.params.unbonding_period;
            let due: BTreeSet<u64> = pre.history.iter().filter(|h| !h.released && h.time + up <= now).map(|h| h.batch_id).collect();
            let mine: Vec<(u64, u128, u128)> = reqs.iter().filter(|r| due.contains(&r.0)).cloned().collect();
            if !mine.is_empty() {
                stats.check("c01_failed_withdraw_on_due_batch");
                // fork: let every other due claimant go first
                let mut w = ctx.pre_w.clone();
                let mut released_by_other = false;
                for (a, rs) in &pre.requests {
                    if *a == signer || !rs.iter().any(|r| due.contains(&r.0)) {
                        continue;
                    }
                    let tx = Op::Withdraw { user: a.clone(), attach: 0u128.into() }.to_tx();
                    if let (Some(nw), _) = run_tx(&w, &tx, None) {
                        w = nw;
                        released_by_other = true;
                        break;
                    }
                }
                if released_by_other {
                    let o2 = observe(&w, ctx.known, &BTreeSet::new());
                    if let Some(h2) = &o2.hub {
                        let (v2, _) = released_claim_value(&mine, &h2.history);
                        if v2 >= 1 {
                            viol(out, "C01", "withdraw_independent_of_order", ctx.idx, "hub.WithdrawUnbonded:order_dependent_failure", format!("{}'s withdraw failed ({}) but succeeds with {} after another claimant releases the batches", signer, err, v2));
                            viol(out, "C09", "matured_claim_is_withdrawable", ctx.idx, "hub.WithdrawUnbonded:order_dependent_failure", format!("{}'s withdraw of a matured claim failed ({}) although it is worth {} once another claimant has released the batches", signer, err, v2));
                        }
                    }
                } else if m.inflow > 0 {
                    // nobody can release although coins arrived: are funds stuck?
                    let mut total_u = 0u128;
                    for h in pre.history.iter().filter(|h| due.contains(&h.batch_id)) {
                        total_u += mul_rate(h.bsei_amount.u128(), atomics(h.bsei_withdraw_rate)).unwrap_or(0) + mul_rate(h.stsei_amount.u128(), atomics(h.stsei_withdraw_rate)).unwrap_or(0);
                    }
                    let mut mine_u = 0u128;
                    for r in &mine {
                        if let Some(h) = pre.history.iter().find(|h| h.batch_id == r.0) {
                            mine_u += mul_rate(r.1, atomics(h.bsei_withdraw_rate)).unwrap_or(0) + mul_rate(r.2, atomics(h.stsei_withdraw_rate)).unwrap_or(0);
                        }
                    }
                    if total_u > 0 {
                        let share = muldiv(m.inflow, mine_u, total_u).unwrap_or(0);
                        // rounding can cost a claimant up to ~5 units per release (split, -1 against the claimant, rate
                        // floor) plus the claim floor of every one of its claims (one per batch and token type): a
                        // claimant with many one-unit claims legitimately gets nothing for each of them
                        let mine_due = mine.iter().filter(|r| due.contains(&r.0)).count() as u128;
                        if share >= 6 + 2 * mine_due {
                            viol(out, "C01", "arrived_coins_not_stuck", ctx.idx, "hub.WithdrawUnbonded:funds_stuck", format!("{} coins arrived for due batches {:?}, {}'s pro-rata share is {}, yet withdraw fails: {}", m.inflow, due, signer, share, err));
                            viol(out, "C09", "matured_claim_is_withdrawable", ctx.idx, "hub.WithdrawUnbonded:funds_stuck", format!("the unbonding period of batches {:?} has passed and {} coins arrived ({}'s pro-rata share: {}), yet WithdrawUnbonded fails: {}", due, m.inflow, signer, share, err));
                        }
                    }
                }
            }
        }
    }
    // duplicate withdraw in the same state pays nothing (exactly once)
    if is_withdraw && ctx.committed() {
        if let Some(Step::Tx { via, .. }) = Some(ctx.step) {
            if via == "dup" {
                stats.probe("c01_duplicate_withdraw_committed");
            }
        }
    }
}

// ======================================================================= C08

pub fn c08_lifecycle(m: &mut Mon, ctx: &StepCtx, stats: &mut Stats, out: &mut Vec<Violation>) {
    let (pre, post) = match (&ctx.pre.hub, &ctx.post.hub) {
        (Some(a), Some(b)) => (a, b),
        _ => return,
    };
    let now = ctx.post_w.time;
    // the unbonding period in force (model): what the deployment was instantiated with,
    // changed only by a committed UpdateParams naming the field
    if m.unbonding_model.is_none() {
        m.unbonding_model = Some(pre.params.unbonding_period);
    }
    if ctx.committed() {
        if let Some((HUB, "update_params")) = ctx.top() {
            if let Some(x) = ctx.tx.and_then(|t| t.msg.get("update_params")).and_then(|b| b.get("unbonding_period")).and_then(|v| v.as_u64()) {
                m.unbonding_model = Some(x);
            }
        }
    }
    let up = m.unbonding_model.unwrap_or(pre.params.unbonding_period);
    if post.params.unbonding_period != up {
        stats.probe("c08_stored_unbonding_period_differs_from_model");
    }
    // 2. ids consecutive, current = last + 1
    for (i, h) in post.history.iter().enumerate() {
        if h.batch_id != i as u64 + 1 {
            viol(out, "C08", "batch_ids_consecutive", ctx.idx, "hub.AllHistory:gap", format!("history position {} holds batch id {}", i, h.batch_id));
            break;
        }
    }
    if post.batch.id != post.history.len() as u64 + 1 {
        viol(out, "C08", "current_batch_follows_history", ctx.idx, "hub.CurrentBatch:id", format!("current batch id {} with {} closed batches", post.batch.id, post.history.len()));
    }
    // new history entries in this step
    if post.history.len() > pre.history.len() {
        stats.check("c08_batch_closed");
        if post.history.len() != pre.history.len() + 1 {
            viol(out, "C08", "one_batch_per_undelegation", ctx.idx, "hub.AllHistory:multi_close", format!("{} batches closed in one step", post.history.len() - pre.history.len()));
        }
        let h = &post.history[post.history.len() - 1];
        let und: u128 = ctx.out.map(|o| o.calls.iter().filter(|c| c.sender == HUB && c.ok).filter_map(|c| if let MsgRec::Undelegate { amount, .. } = &c.msg { Some(*amount) } else { None }).sum()).unwrap_or(0);
        let expect = mul_rate(h.bsei_amount.u128(), atomics(h.bsei_applied_exchange_rate)).unwrap_or(0) + mul_rate(h.stsei_amount.u128(), atomics(h.stsei_applied_exchange_rate)).unwrap_or(0);
        if und != expect {
            viol(out, "C08", "undelegated_equals_requests_at_recorded_rates", ctx.idx, "hub.process_undelegations:amount", format!("batch {} undelegated {} but requests at the recorded rates are worth {}", h.batch_id, und, expect));
        }
        if h.time != now {
            viol(out, "C08", "history_time_is_undelegation_time", ctx.idx, "hub.process_undelegations:time", format!("batch {} recorded time {} at block time {}", h.batch_id, h.time, now));
        }
        if m.undelegated.insert(h.batch_id, (now, und)).is_some() {
            viol(out, "C08", "batch_undelegated_once", ctx.idx, "hub.process_undelegations:twice", format!("batch {} undelegated twice", h.batch_id));
        }
        if let Some(prev) = m.last_undelegation_time {
            let ep = pre.params.epoch_period;
            if !(now - prev > ep) {
                viol(out, "C08", "undelegations_more_than_an_epoch_apart", ctx.idx, "hub.unbond:epoch_gate", format!("batch {} undelegated at {} only {}s after the previous one at {} (epoch {})", h.batch_id, now, now - prev, prev, ep));
            }
            if now - prev == ep + 1 {
                stats.probe("c08_undelegation_at_epoch_plus_1");
            }
        }
        m.last_undelegation_time = Some(now);
        if h.released {
            viol(out, "C08", "new_batch_not_released", ctx.idx, "hub.process_undelegations:released", format!("batch {} is released at creation", h.batch_id));
        }
    } else if ctx.committed() {
        // Undelegate messages without a new batch?
        let und = ctx.out.map(|o| o.calls.iter().any(|c| c.sender == HUB && matches!(c.msg, MsgRec::Undelegate { .. }))).unwrap_or(false);
        if und {
            viol(out, "C08", "undelegation_only_when_closing_a_batch", ctx.idx, "hub:undelegate_without_batch", "hub emitted Undelegate without closing a batch".into());
        }
        // epoch passed but unbond did not undelegate
        if let Some(prev) = m.last_undelegation_time {
            let recs = hub_receives(ctx);
            if recs.iter().any(|r| r.rec.ok && r.hook == "unbond") {
                if now - prev > pre.params.epoch_period {
                    viol(out, "C09", "unbond_after_epoch_undelegates", ctx.idx, "hub.unbond:no_undelegation_after_epoch", format!("unbond at {} ({}s after the last undelegation, epoch {}) did not undelegate", now, now - prev, pre.params.epoch_period));
                } else if now - prev == pre.params.epoch_period {
                    stats.probe("c08_unbond_exactly_on_epoch_boundary");
                }
            }
        }
    }
    // 3. released entries immutable, order, last_processed monotone
    for h in &post.history {
        if h.released && !m.released_snap.contains_key(&h.batch_id) && now < h.time + up {
            viol(out, "C08", "no_release_before_unbonding_period", ctx.idx, "hub.process_withdraw_rate:early_release", format!("batch {} undelegated at {} was released (withdraw rates frozen) at {} (unbonding period {}, hub stores {})", h.batch_id, h.time, now, up, post.params.unbonding_period));
        }
        if let Some(old) = m.released_snap.get(&h.batch_id) {
            if old != h {
                viol(out, "C08", "released_batch_immutable", ctx.idx, "hub.AllHistory:released_changed", format!("released batch {} changed from {:?} to {:?}", h.batch_id, old, h));
            }
        } else if h.released {
            m.released_snap.insert(h.batch_id, h.clone());
        }
    }
    for p in &pre.history {
        if let Some(q) = post.history.iter().find(|q| q.batch_id == p.batch_id) {
            if p.batch_id != q.batch_id || p.time != q.time || p.bsei_amount != q.bsei_amount || p.stsei_amount != q.stsei_amount || p.bsei_applied_exchange_rate != q.bsei_applied_exchange_rate || p.stsei_applied_exchange_rate != q.stsei_applied_exchange_rate {
                viol(out, "C08", "closed_batch_amounts_immutable", ctx.idx, "hub.AllHistory:closed_changed", format!("closed batch {} changed from {:?} to {:?}", p.batch_id, p, q));
            }
        } else {
            viol(out, "C08", "history_never_shrinks", ctx.idx, "hub.AllHistory:removed", format!("batch {} disappeared", p.batch_id));
        }
    }
    if let Some(s) = &post.raw {
        if s.last_processed_batch < m.last_processed {
            viol(out, "C08", "last_processed_monotone", ctx.idx, "hub.State:last_processed", format!("last_processed_batch went {} -> {}", m.last_processed, s.last_processed_batch));
        }
        m.last_processed = s.last_processed_batch;
        for h in &post.history {
            if h.released != (h.batch_id <= s.last_processed_batch) {
                viol(out, "C08", "released_in_id_order", ctx.idx, "hub.AllHistory:release_order", format!("batch {} released={} with last_processed_batch={}", h.batch_id, h.released, s.last_processed_batch));
                break;
            }
        }
    }
    // 1. time lock on every payout
    if ctx.committed() {
        if let Some((HUB, "withdraw_unbonded")) = ctx.top() {
            let signer = ctx.tx.map(|t| t.sender.clone()).unwrap_or_default();
            let pre_r = pre.requests.get(&signer).cloned().unwrap_or_default();
            let post_r = post.requests.get(&signer).cloned().unwrap_or_default();
            for r in &pre_r {
                if !post_r.iter().any(|x| x.0 == r.0) {
                    stats.check("c08_timelock");
                    let t0 = m.undelegated.get(&r.0).map(|x| x.0).or_else(|| post.history.iter().find(|h| h.batch_id == r.0).map(|h| h.time));
                    match t0 {
                        Some(t0) => {
                            if now < t0 + up {
                                viol(out, "C08", "no_payout_before_unbonding_period", ctx.idx, "hub.WithdrawUnbonded:early", format!("batch {} undelegated at {} paid at {} (unbonding period {}, hub stores {})", r.0, t0, now, up, pre.params.unbonding_period));
                            }
                            if now == t0 + up {
                                stats.probe("c08_release_on_exact_boundary_second");
                            }
                        }
                        None => viol(out, "C08", "no_payout_for_open_batch", ctx.idx, "hub.WithdrawUnbonded:open_batch", format!("claim on batch {} paid although the batch was never undelegated", r.0)),
                    }
                }
            }
        }
    } else if let Some((HUB, "withdraw_unbonded")) = ctx.top() {
        // probe: a withdraw one second early
        let signer = ctx.tx.map(|t| t.sender.clone()).unwrap_or_default();
        if let Some(rs) = pre.requests.get(&signer) {
            if rs.iter().any(|r| pre.history.iter().any(|h| h.batch_id == r.0 && !h.released && h.time + up == now + 1)) {
                stats.probe("c08_withdraw_one_second_early");
            }
        }
    }
}
