//! C02 (books vs delegated stake), C03 (rates and pricing), C04 (no dilution),
//! C05 (peg fee), C06 (slashing recognition and spread).

use super::hub::hub_receives;
use super::{hub_liquid, viol, Mon};
use crate::chain::*;
use crate::ops::{EnvEv, Step, Tok};
use crate::refmath::*;
use crate::sim::{Stats, StepCtx, Violation};
use crate::wasm::MsgRec;
use cosmwasm_std::{Uint256, Uint512};

fn is_pricing_call(c: &crate::wasm::CallRec) -> bool {
    matches!(c.exec(), Some((HUB, v, _)) if matches!(v, "bond" | "bond_for_st_sei" | "bond_rewards" | "receive" | "check_slashing"))
}

fn minted(ctx: &StepCtx, tok: Tok) -> Option<(String, u128)> {
    let o = ctx.out?;
    for c in &o.calls {
        if c.sender == HUB {
            if let Some((t, "mint", body)) = c.exec() {
                if t == tok.addr() {
                    let a = body.get("amount")?.as_str()?.parse::<u128>().ok()?;
                    let r = body.get("recipient")?.as_str()?.to_string();
                    return Some((r, a));
                }
            }
        }
    }
    None
}

// ======================================================================= C02

pub fn c02_books(_m: &mut Mon, ctx: &StepCtx, stats: &mut Stats, out: &mut Vec<Violation>) {
    if !ctx.committed() {
        return;
    }
    let (pre, post) = match (&ctx.pre.hub, &ctx.post.hub) {
        (Some(a), Some(b)) => (a, b),
        _ => return,
    };
    let o = ctx.out.unwrap();
    let d_post = ctx.post_w.total_delegated(HUB);
    // 1. stored books never exceed delegations after a pricing operation: at the end of the
    //    transaction, and right after each pricing handler inside it (its own staking messages
    //    counted as executed), so that a later nested CheckSlashing cannot hide an excess
    if o.calls.iter().any(is_pricing_call) {
        stats.check("c02_books_le_delegated");
        if let Some(r) = &post.raw {
            let booked = r.total_bond_bsei_amount.u128() + r.total_bond_stsei_amount.u128();
            if booked > d_post {
                viol(out, "C02", "booked_stake_le_delegated", ctx.idx, "hub:books_exceed_delegations", format!("after {:?}: stored bSei pool {} + stSei pool {} = {} > delegated {}", ctx.top(), r.total_bond_bsei_amount, r.total_bond_stsei_amount, booked, d_post));
            }
        }
        for c in o.calls.iter().filter(|c| c.ok && is_pricing_call(c)) {
            let g = |k: &str| c.attr(k).and_then(|v| v.parse::<u128>().ok());
            if let (Some(bb), Some(bs), Some(d)) = (g("sim:books_b"), g("sim:books_s"), g("sim:delegated")) {
                let mut d_eff = d;
                for k in o.children(c.idx) {
                    match &k.msg {
                        MsgRec::Delegate { amount, .. } => d_eff += amount,
                        MsgRec::Undelegate { amount, .. } => d_eff = d_eff.saturating_sub(*amount),
                        _ => {}
                    }
                }
                stats.check("c02_books_le_delegated_in_tx");
                if bb + bs > d_eff {
                    viol(out, "C02", "booked_stake_le_delegated", ctx.idx, "hub:books_exceed_delegations_in_tx", format!("right after {:?}: stored pools {} + {} exceed the delegated {} (own staking messages included)", c.exec().map(|e| e.1), bb, bs, d_eff));
                }
            }
        }
    }
    // 2. every bond-type call delegates its payment in full, to registered validators
    let registered: Vec<String> = ctx.post.registry.as_ref().map(|r| r.iter().map(|v| v.address.clone()).collect()).unwrap_or_default();
    for c in &o.calls {
        if let Some((HUB, v, _)) = c.exec() {
            if matches!(v, "bond" | "bond_for_st_sei" | "bond_rewards") {
                stats.check("c02_bond_delegated_in_full");
                let payment = c.funds_of(DENOM);
                let mut sum = 0u128;
                for ch in o.children(c.idx) {
                    if let MsgRec::Delegate { validator, amount } = &ch.msg {
                        sum += amount;
                        if *amount == 0 {
                            viol(out, "C02", "no_zero_delegation", ctx.idx, "hub.bond:zero_delegate", format!("{} emitted a zero Delegate to {}", v, validator));
                        }
                        if !registered.contains(validator) {
                            viol(out, "C02", "delegate_only_to_registered", ctx.idx, "hub.bond:unregistered_validator", format!("{} delegated {} to {} which is not registered ({:?})", v, amount, validator, registered));
                        }
                    }
                }
                if sum != payment {
                    viol(out, "C02", "bond_delegated_in_full", ctx.idx, "hub.bond:delegate_sum", format!("{} received {} but delegated {}", v, payment, sum));
                }
            }
        }
    }
    // 3. undelegating unbond removes from the books exactly what it undelegates
    let recs = hub_receives(ctx);
    if recs.iter().any(|r| r.hook == "unbond") {
        if let (Some(ps), Some(qs)) = (&pre.state, &post.state) {
            let und: u128 = o.calls.iter().filter(|c| c.sender == HUB).filter_map(|c| if let MsgRec::Undelegate { amount, .. } = &c.msg { Some(*amount) } else { None }).sum();
            let b_pre = ps.total_bond_bsei_amount.u128() + ps.total_bond_stsei_amount.u128();
            let b_post = qs.total_bond_bsei_amount.u128() + qs.total_bond_stsei_amount.u128();
            stats.check("c02_unbond_book_delta");
            if b_pre.checked_sub(und) != Some(b_post) {
                viol(out, "C02", "undelegation_removed_from_books_exactly", ctx.idx, "hub.unbond:book_delta", format!("books {} -> {} but undelegated {}", b_pre, b_post, und));
            }
            // per pool: each pool gives up exactly what its own requests are worth
            if post.history.len() == pre.history.len() + 1 {
                let h = &post.history[post.history.len() - 1];
                let ub = mul_rate(h.bsei_amount.u128(), atomics(h.bsei_applied_exchange_rate)).unwrap_or(0);
                let us = mul_rate(h.stsei_amount.u128(), atomics(h.stsei_applied_exchange_rate)).unwrap_or(0);
                if ps.total_bond_bsei_amount.u128().checked_sub(ub) != Some(qs.total_bond_bsei_amount.u128()) || ps.total_bond_stsei_amount.u128().checked_sub(us) != Some(qs.total_bond_stsei_amount.u128()) {
                    viol(out, "C02", "each_pool_gives_up_its_own_undelegation", ctx.idx, "hub.unbond:pool_delta", format!("pools ({},{}) -> ({},{}) but the batch undelegated {} for bSei and {} for stSei", ps.total_bond_bsei_amount, ps.total_bond_stsei_amount, qs.total_bond_bsei_amount, qs.total_bond_stsei_amount, ub, us));
                }
            }
        }
    }
    // 4. liquid balance untouched by bond / convert / index update / slashing check
    let l_pre = hub_liquid(ctx.pre_w);
    let l_post = hub_liquid(ctx.post_w);
    let top = ctx.top();
    let attach = ctx.tx.map(|t| t.funds.iter().filter(|c| c.denom == DENOM).map(|c| c.amount.u128()).sum::<u128>()).unwrap_or(0);
    let is_convert = recs.iter().any(|r| r.hook == "convert");
    let expect = match top {
        Some((HUB, "bond")) | Some((HUB, "bond_for_st_sei")) => Some(l_pre),
        Some((HUB, "update_global_index")) | Some((HUB, "check_slashing")) => Some(l_pre + attach),
        Some((REGISTRY, "remove_validator")) | Some((REGISTRY, "redelegations")) | Some((REGISTRY, "add_validator")) => Some(l_pre),
        _ if is_convert => Some(l_pre),
        _ => None,
    };
    if let Some(e) = expect {
        stats.check("c02_liquid_untouched");
        if l_post != e {
            viol(out, "C02", "liquid_balance_untouched", ctx.idx, "hub:liquid_changed", format!("{:?} changed the hub's liquid balance {} -> {} (expected {})", top, l_pre, l_post, e));
        }
    }
}

// ======================================================================= C03

pub fn c03_rates(_m: &mut Mon, ctx: &StepCtx, stats: &mut Stats, out: &mut Vec<Violation>) {
    let post = match &ctx.post.hub {
        Some(h) => h,
        None => return,
    };
    let d = ctx.post_w.total_delegated(HUB);
    // 1. reported rates = backing / claims
    if let (Some(s), Some(raw), Some(tb), Some(ts)) = (&post.state, &post.raw, ctx.post.t(Tok::B), ctx.post.t(Tok::St)) {
        let stored_total = raw.total_bond_bsei_amount.u128() + raw.total_bond_stsei_amount.u128();
        if d > 0 && stored_total > 0 {
            stats.check("c03_rate_formula");
            let eb = rate_of(s.total_bond_bsei_amount.u128(), tb.supply + post.batch.requested_bsei_with_fee.u128());
            let es = rate_of(s.total_bond_stsei_amount.u128(), ts.supply + post.batch.requested_stsei.u128());
            if eb != Some(atomics(s.bsei_exchange_rate)) {
                viol(out, "C03", "bsei_rate_equals_backing_over_claims", ctx.idx, "hub.State:bsei_rate", format!("State reports bSei rate {} but {}/({}+{}) = {:?}", s.bsei_exchange_rate, s.total_bond_bsei_amount, tb.supply, post.batch.requested_bsei_with_fee, eb.map(dec)));
            }
            if es != Some(atomics(s.stsei_exchange_rate)) {
                viol(out, "C03", "stsei_rate_equals_backing_over_claims", ctx.idx, "hub.State:stsei_rate", format!("State reports stSei rate {} but {}/({}+{}) = {:?}", s.stsei_exchange_rate, s.total_bond_stsei_amount, ts.supply, post.batch.requested_stsei, es.map(dec)));
            }
        }
    } else if post.state.is_none() && d > 0 {
        viol(out, "C03", "state_query_answers", ctx.idx, "hub.State:query_failed", format!("State query failed: {:?}", post.state_err));
    }
    // 2. pricing of this transaction against the State answer just before it
    if !ctx.committed() {
        return;
    }
    let pre = match &ctx.pre.hub {
        Some(h) => h,
        None => return,
    };
    let ps = match &pre.state {
        Some(s) => s,
        None => return,
    };
    let (rb, rs) = (atomics(ps.bsei_exchange_rate), atomics(ps.stsei_exchange_rate));
    let fee_applies = ps.bsei_exchange_rate < pre.params.er_threshold;
    let signer = ctx.tx.map(|t| t.sender.clone()).unwrap_or_default();
    match ctx.top() {
        Some((HUB, "bond")) => {
            let p = ctx.out.unwrap().calls[0].funds_of(DENOM);
            let nofee = div_rate(p, rb).unwrap_or(0);
            if let Some((rcpt, a)) = minted(ctx, Tok::B) {
                stats.check("c03_bond_price");
                if rcpt != signer {
                    viol(out, "C03", "bond_mints_to_payer", ctx.idx, "hub.bond:recipient", format!("bond by {} minted to {}", signer, rcpt));
                }
                if !fee_applies && a != nofee {
                    viol(out, "C03", "bond_mints_floor_payment_over_rate", ctx.idx, "hub.bond:mint_amount", format!("bond of {} at rate {} minted {} (expected {})", p, ps.bsei_exchange_rate, a, nofee));
                }
                if a > nofee {
                    viol(out, "C03", "bond_never_mints_more_than_floor", ctx.idx, "hub.bond:mint_amount_high", format!("bond of {} at rate {} minted {} > {}", p, ps.bsei_exchange_rate, a, nofee));
                }
                let (b0, b1) = (ctx.pre.t(Tok::B).and_then(|t| t.bal.get(&signer).copied()).unwrap_or(0), ctx.post.t(Tok::B).and_then(|t| t.bal.get(&signer).copied()).unwrap_or(0));
                if b0 + a != b1 {
                    viol(out, "C03", "minted_amount_reaches_balance", ctx.idx, "hub.bond:balance_delta", format!("mint of {} but balance {} -> {}", a, b0, b1));
                }
                if a == 0 {
                    viol(out, "C03", "no_tokens_for_nothing_no_payment_for_zero_tokens", ctx.idx, "hub.bond:zero_mint_committed", "a bond minting zero tokens committed".into());
                }
            } else {
                viol(out, "C03", "bond_mints", ctx.idx, "hub.bond:no_mint", "committed bond without a mint".into());
            }
        }
        Some((HUB, "bond_for_st_sei")) => {
            let p = ctx.out.unwrap().calls[0].funds_of(DENOM);
            let e = div_rate(p, rs).unwrap_or(0);
            match minted(ctx, Tok::St) {
                Some((rcpt, a)) => {
                    stats.check("c03_bond_stsei_price");
                    if a != e || rcpt != signer || a == 0 {
                        viol(out, "C03", "bond_stsei_mints_floor_payment_over_rate", ctx.idx, "hub.bond_for_st_sei:mint_amount", format!("stSei bond of {} at rate {} minted {} to {} (expected {} to {})", p, ps.stsei_exchange_rate, a, rcpt, e, signer));
                    }
                }
                None => viol(out, "C03", "bond_mints", ctx.idx, "hub.bond_for_st_sei:no_mint", "committed stSei bond without a mint".into()),
            }
        }
        _ => {}
    }
    // the coin value an operation prices is what moves between / into the pools
    if let Some(qs) = ctx.post.hub.as_ref().and_then(|h| h.state.as_ref()) {
        let (pb, pst) = (ps.total_bond_bsei_amount.u128(), ps.total_bond_stsei_amount.u128());
        let (qb, qst) = (qs.total_bond_bsei_amount.u128(), qs.total_bond_stsei_amount.u128());
        let mut expect: Option<(u128, u128, &'static str)> = None;
        match ctx.top() {
            Some((HUB, "bond")) => expect = Some((pb + ctx.out.unwrap().calls[0].funds_of(DENOM), pst, "bond")),
            Some((HUB, "bond_for_st_sei")) => expect = Some((pb, pst + ctx.out.unwrap().calls[0].funds_of(DENOM), "bond_for_st_sei")),
            _ => {}
        }
        for r in hub_receives(ctx) {
            if r.hook == "convert" {
                match r.token {
                    Some(Tok::St) => {
                        let coin = mul_rate(r.amount, rs).unwrap_or(0);
                        expect = Some((pb + coin, pst.saturating_sub(coin), "convert_st_to_b"));
                    }
                    Some(Tok::B) => {
                        // the fee (C05) stays with the bSei pool: the moved value is bounded by the no-fee value
                        let coin_max = mul_rate(r.amount, rb).unwrap_or(0);
                        let moved = pb.saturating_sub(qb);
                        if moved > coin_max || qst != pst + moved {
                            viol(out, "C03", "convert_moves_priced_value_between_pools", ctx.idx, "hub.convert_bsei_stsei:pool_delta", format!("convert of {} bSei moved pools ({},{}) -> ({},{}), priced value at most {}", r.amount, pb, pst, qb, qst, coin_max));
                        }
                    }
                    None => {}
                }
            }
        }
        if let Some((eb, es, what)) = expect {
            stats.check("c03_pool_delta");
            if (qb, qst) != (eb, es) {
                viol(out, "C03", "priced_value_is_credited_to_its_pool", ctx.idx, &format!("hub.{}:pool_delta", what), format!("{}: pools ({},{}) -> ({},{}) but the priced value gives ({},{})", what, pb, pst, qb, qst, eb, es));
            }
        }
    }
    // a closing batch is priced at backing / (supply + requests) of that very moment
    if let Some(post) = &ctx.post.hub {
        if post.history.len() == pre.history.len() + 1 {
            let h = &post.history[post.history.len() - 1];
            if let (Some(tb), Some(ts)) = (ctx.post.t(Tok::B), ctx.post.t(Tok::St)) {
                stats.check("c03_batch_priced_at_current_rate");
                let eb = rate_of(ps.total_bond_bsei_amount.u128(), tb.supply + h.bsei_amount.u128());
                let es = rate_of(ps.total_bond_stsei_amount.u128(), ts.supply + h.stsei_amount.u128());
                if eb != Some(atomics(h.bsei_applied_exchange_rate)) || es != Some(atomics(h.stsei_applied_exchange_rate)) {
                    viol(out, "C03", "batch_undelegated_at_current_rate", ctx.idx, "hub.process_undelegations:applied_rate", format!("batch {} applied rates ({}, {}) but backing/(supply+requests) = ({:?}, {:?})", h.batch_id, h.bsei_applied_exchange_rate, h.stsei_applied_exchange_rate, eb.map(dec), es.map(dec)));
                }
                // ... and is undelegated for floor(requests x rate) coins: the Undelegate messages of
                // this transaction add up to exactly that
                if let (Some(rb), Some(rs)) = (eb, es) {
                    let want = mul_rate(h.bsei_amount.u128(), rb).unwrap_or(0) + mul_rate(h.stsei_amount.u128(), rs).unwrap_or(0);
                    let got: u128 = ctx.out.map(|o| o.calls.iter().filter(|c| c.sender == HUB && c.ok).filter_map(|c| if let MsgRec::Undelegate { amount, .. } = &c.msg { Some(*amount) } else { None }).sum()).unwrap_or(0);
                    if got != want {
                        viol(out, "C03", "batch_undelegated_for_floor_requests_times_rate", ctx.idx, "hub.process_undelegations:undelegated_amount", format!("batch {} holds {} bSei at {} and {} stSei at {} = {} coins, but {} were undelegated", h.batch_id, h.bsei_amount, dec(rb), h.stsei_amount, dec(rs), want, got));
                    }
                }
            }
        }
    }
    for r in hub_receives(ctx) {
        let tok = match r.token {
            Some(t) => t,
            None => continue,
        };
        if r.hook == "convert" {
            stats.check("c03_convert_price");
            match tok {
                Tok::St => {
                    let coin = mul_rate(r.amount, rs).unwrap_or(0);
                    let nofee = div_rate(coin, rb).unwrap_or(0);
                    let got = minted(ctx, Tok::B).map(|x| x.1).unwrap_or(0);
                    if (!fee_applies && got != nofee) || got > nofee || got == 0 {
                        viol(out, "C03", "convert_st_to_b_reprices_coin_value", ctx.idx, "hub.convert_stsei_bsei:mint_amount", format!("convert {} stSei (rs {} rb {}) minted {} bSei, no-fee amount {}", r.amount, ps.stsei_exchange_rate, ps.bsei_exchange_rate, got, nofee));
                    }
                }
                Tok::B => {
                    let coin = mul_rate(r.amount, rb).unwrap_or(0);
                    let nofee = div_rate(coin, rs).unwrap_or(0);
                    let got = minted(ctx, Tok::St).map(|x| x.1).unwrap_or(0);
                    if (!fee_applies && got != nofee) || got > nofee || got == 0 {
                        viol(out, "C03", "convert_b_to_st_reprices_coin_value", ctx.idx, "hub.convert_bsei_stsei:mint_amount", format!("convert {} bSei (rb {} rs {}) minted {} stSei, no-fee amount {}", r.amount, ps.bsei_exchange_rate, ps.stsei_exchange_rate, got, nofee));
                    }
                }
            }
        }
    }
}

// ======================================================================= C04

pub fn c04_no_dilution(_m: &mut Mon, ctx: &StepCtx, stats: &mut Stats, out: &mut Vec<Violation>) {
    if let Step::Env(EnvEv::Slash { .. }) = ctx.step {
        return;
    }
    if matches!(ctx.step, Step::Tx { .. }) && !ctx.committed() {
        return;
    }
    let (pre, post) = match (&ctx.pre.hub, &ctx.post.hub) {
        (Some(a), Some(b)) => (a, b),
        _ => return,
    };
    let (ps, qs) = match (&pre.state, &post.state) {
        (Some(a), Some(b)) => (a, b),
        _ => return,
    };
    for tok in [Tok::B, Tok::St] {
        let (s0, s1) = match (ctx.pre.t(tok), ctx.post.t(tok)) {
            (Some(a), Some(b)) => (a.supply, b.supply),
            _ => continue,
        };
        let (q0, q1, r0, r1) = match tok {
            Tok::B => (pre.batch.requested_bsei_with_fee.u128(), post.batch.requested_bsei_with_fee.u128(), ps.bsei_exchange_rate, qs.bsei_exchange_rate),
            Tok::St => (pre.batch.requested_stsei.u128(), post.batch.requested_stsei.u128(), ps.stsei_exchange_rate, qs.stsei_exchange_rate),
        };
        if s0 + q0 == 0 || s1 + q1 == 0 {
            continue;
        }
        // with zero backing the hub reports the definitional 1 (C03: "1 when either is zero"),
        // which is not a holder value that an operation could lower; same class as the
        // empty-supply reset
        let (b0, b1) = match tok {
            Tok::B => (ps.total_bond_bsei_amount, qs.total_bond_bsei_amount),
            Tok::St => (ps.total_bond_stsei_amount, qs.total_bond_stsei_amount),
        };
        if b0.is_zero() || b1.is_zero() {
            stats.probe("c04_zero_backing_definitional_rate");
            continue;
        }
        stats.check("c04_rate_monotone");
        if r1 < r0 {
            viol(out, "C04", "rate_never_falls_without_slashing", ctx.idx, match tok {
                Tok::B => "hub:bsei_rate_fell",
                Tok::St => "hub:stsei_rate_fell",
            }, format!("{:?} rate fell {} -> {} in step {:?} {:?}", tok, r0, r1, ctx.top(), ctx.step));
        }
    }
    // BondRewards: raises the stSei rate, mints nothing
    if ctx.committed() {
        let o = ctx.out.unwrap();
        for c in o.find(HUB, "bond_rewards") {
            let rebonded = c.funds_of(DENOM);
            if let (Some(t0), Some(t1)) = (ctx.pre.t(Tok::St), ctx.post.t(Tok::St)) {
                stats.check("c04_bond_rewards");
                if t0.supply != t1.supply {
                    viol(out, "C04", "bond_rewards_mints_nothing", ctx.idx, "hub.bond_rewards:minted", format!("stSei supply {} -> {} in a reward re-bond", t0.supply, t1.supply));
                }
                let denom = t1.supply + post.batch.requested_stsei.u128();
                if denom > 0 && !ps.total_bond_stsei_amount.is_zero() && rebonded.checked_mul(ONE).map(|x| x >= denom).unwrap_or(true) && qs.stsei_exchange_rate <= ps.stsei_exchange_rate {
                    viol(out, "C04", "bond_rewards_raises_stsei_rate", ctx.idx, "hub.bond_rewards:rate_not_raised", format!("re-bonding {} over stSei supply {} left the rate at {} (was {})", rebonded, denom, qs.stsei_exchange_rate, ps.stsei_exchange_rate));
                }
            }
        }
    }
}

// ======================================================================= C05

pub fn c05_peg_fee(_m: &mut Mon, ctx: &StepCtx, stats: &mut Stats, out: &mut Vec<Violation>) {
    if !ctx.committed() {
        return;
    }
    let (pre, post) = match (&ctx.pre.hub, &ctx.post.hub) {
        (Some(a), Some(b)) => (a, b),
        _ => return,
    };
    let (ps, qs) = match (&pre.state, &post.state) {
        (Some(a), Some(b)) => (a, b),
        _ => return,
    };
    // the bSei rate the fee rules speak about is backing over *real* claims: circulating supply
    // plus the open batch's requests as the users' own wait-list records (UnbondRequests) show them, not a
    // batch column the hub may have left stale (both agree on the unchanged code; C07 compares them)
    let ledger_open_b: u128 = pre.requests.values().flat_map(|v| v.iter()).filter(|r| r.0 == pre.batch.id).map(|r| r.1).sum();
    let supply_b = ctx.pre.t(Tok::B).map(|t| t.supply).unwrap_or(0);
    // (an empty pool has no backing-over-claims ratio: there the hub's reported rate stands)
    let rb_true = if ps.total_bond_bsei_amount.is_zero() || supply_b + ledger_open_b == 0 { None } else { rate_of(ps.total_bond_bsei_amount.u128(), supply_b + ledger_open_b) };
    let (rb, rs) = (rb_true.unwrap_or(atomics(ps.bsei_exchange_rate)), atomics(ps.stsei_exchange_rate));
    if rb != atomics(ps.bsei_exchange_rate) {
        stats.probe("c05_reported_rate_differs_from_ledger_rate");
    }
    let fee = atomics(pre.params.peg_recovery_fee);
    let fee_applies = rb < atomics(pre.params.er_threshold);
    // (path, nofee, credited, tau)
    let mut cases: Vec<(&'static str, u128, u128, u128)> = vec![];
    if let Some((HUB, "bond")) = ctx.top() {
        let p = ctx.out.unwrap().calls[0].funds_of(DENOM);
        if let Some((_, a)) = minted(ctx, Tok::B) {
            cases.push(("bond", div_rate(p, rb).unwrap_or(0), a, 0));
        }
    }
    for r in hub_receives(ctx) {
        match (r.token, r.hook.as_str()) {
            (Some(Tok::B), "unbond") => {
                // credited = growth of the sender's recorded claim in the then-open batch
                let key_batch = pre.batch.id;
                let find = |h: &crate::obs::HubObs| h.requests.get(&r.cw20_sender).and_then(|v| v.iter().find(|x| x.0 == key_batch).map(|x| x.1)).unwrap_or(0);
                let g = find(post).saturating_sub(find(pre));
                cases.push(("unbond", r.amount, g, 0));
            }
            (Some(Tok::St), "convert") => {
                let nofee = div_rate(mul_rate(r.amount, rs).unwrap_or(0), rb).unwrap_or(0);
                cases.push(("convert_st_to_b", nofee, minted(ctx, Tok::B).map(|x| x.1).unwrap_or(0), 0));
            }
            (Some(Tok::B), "convert") => {
                let nofee = div_rate(mul_rate(r.amount, rb).unwrap_or(0), rs).unwrap_or(0);
                let tau = 2 + muldiv_ceil(1, ONE, rs.max(1)).unwrap_or(u128::MAX / 4);
                cases.push(("convert_b_to_st", nofee, minted(ctx, Tok::St).map(|x| x.1).unwrap_or(0), tau));
            }
            _ => {}
        }
    }
    if cases.is_empty() {
        return;
    }
    let claims_pre = supply_b + ledger_open_b;
    let below_peg_pre = ps.total_bond_bsei_amount.u128() < claims_pre;
    for (path, nofee, credited, tau) in cases {
        stats.check("c05_fee_case");
        if fee_applies {
            stats.probe("c05_fee_charging_state");
        }
        if !fee_applies && credited != nofee {
            viol(out, "C05", "no_fee_at_or_above_threshold", ctx.idx, &format!("hub.{}:fee_above_threshold", path), format!("{}: rate {} >= threshold {} but credited {} != {}", path, ps.bsei_exchange_rate, pre.params.er_threshold, credited, nofee));
        }
        if credited > nofee {
            viol(out, "C05", "fee_never_negative", ctx.idx, &format!("hub.{}:negative_fee", path), format!("{}: credited {} > no-fee amount {}", path, credited, nofee));
        }
        let max_fee = mul_rate(nofee, fee).unwrap_or(0);
        if credited + max_fee + tau < nofee {
            viol(out, "C05", "fee_bounded_by_rate", ctx.idx, &format!("hub.{}:fee_above_max", path), format!("{}: credited {} < {} - {} (fee {}) - {}", path, credited, nofee, max_fee, pre.params.peg_recovery_fee, tau));
        }
        if fee_applies && credited + max_fee == nofee && max_fee > 0 {
            stats.probe("c05_max_fee_binding");
        }
        if fee_applies && credited < nofee && credited + max_fee > nofee {
            stats.probe("c05_gap_binding_fee");
        }
        // 3. never over-collect past the peg
        if below_peg_pre {
            let claims_post = ctx.post.t(Tok::B).map(|t| t.supply).unwrap_or(0) + post.batch.requested_bsei_with_fee.u128();
            let backing = qs.total_bond_bsei_amount.u128();
            stats.check("c05_no_overshoot");
            if claims_post > 0 && backing > claims_post + 2 {
                viol(out, "C05", "fee_never_lifts_rate_above_peg", ctx.idx, &format!("hub.{}:overshoot", path), format!("{}: started below peg (backing {} < claims {}), ended with backing {} > claims {} (rate {})", path, ps.total_bond_bsei_amount, claims_pre, backing, claims_post, qs.bsei_exchange_rate));
            }
        }
    }
}

// ======================================================================= C06

pub fn c06_slashing(_m: &mut Mon, ctx: &StepCtx, stats: &mut Stats, out: &mut Vec<Violation>) {
    let post = match &ctx.post.hub {
        Some(h) => h,
        None => return,
    };
    let (q, raw) = match (&post.state, &post.raw) {
        (Some(a), Some(b)) => (a, b),
        _ => return,
    };
    let d = ctx.post_w.total_delegated(HUB);
    let (rb, rs) = (raw.total_bond_bsei_amount.u128(), raw.total_bond_stsei_amount.u128());
    let (qb, qs) = (q.total_bond_bsei_amount.u128(), q.total_bond_stsei_amount.u128());
    // the recognition function, observed through the State query at every step
    if d > 0 && rb + rs > 0 {
        stats.check("c06_recognition");
        // component-wise "never raises" holds exactly when there is no loss (next branch); under a
        // loss the remainder rule may move a pool by the stated two units of its exact share
        if qb > rb + 2 || qs > rs + 2 {
            viol(out, "C06", "check_never_raises_a_pool", ctx.idx, "hub.slashing:pool_raised", format!("stored ({},{}) recognised as ({},{}) with {} delegated", rb, rs, qb, qs, d));
        }
        if d < rb + rs {
            stats.probe("c06_unrecognised_slashing_state");
            if qb + qs != d {
                viol(out, "C06", "recognised_books_equal_delegated", ctx.idx, "hub.slashing:sum", format!("stored ({},{}) delegated {} recognised ({},{})", rb, rs, d, qb, qs));
            }
            // exact pro-rata share: d * rb / (rb + rs), within 2 units
            let lo = muldiv(d, rb, rb + rs).unwrap_or(0);
            if abs_diff(qb, lo) > 2 || abs_diff(qs, d - lo.min(d)) > 2 {
                viol(out, "C06", "slashing_shared_pro_rata", ctx.idx, "hub.slashing:pro_rata", format!("stored ({},{}) delegated {}: recognised ({},{}), exact bSei share {}", rb, rs, d, qb, qs, lo));
            }
        } else if (qb, qs) != (rb, rs) {
            viol(out, "C06", "no_change_without_loss", ctx.idx, "hub.slashing:changed_without_loss", format!("stored ({},{}) delegated {} recognised ({},{})", rb, rs, d, qb, qs));
        }
    }
    // an explicit CheckSlashing persists exactly what the query showed beforehand
    if ctx.committed() {
        if let Some((HUB, "check_slashing")) = ctx.top() {
            if let Some(pre) = &ctx.pre.hub {
                if let Some(ps) = &pre.state {
                    stats.check("c06_check_slashing_persists");
                    if (rb, rs) != (ps.total_bond_bsei_amount.u128(), ps.total_bond_stsei_amount.u128()) {
                        viol(out, "C06", "check_slashing_persists_recognised_books", ctx.idx, "hub.check_slashing:persist", format!("State showed ({},{}) before CheckSlashing, stored ({},{}) after", ps.total_bond_bsei_amount, ps.total_bond_stsei_amount, rb, rs));
                    }
                }
            }
        }
    }
}

/// C06.2 — called by the C01 monitor when a group of batches is released.
pub fn c06_group_spread(ctx: &StepCtx, group: &[&basset::hub::UnbondHistoryResponse], arrived: u128, stats: &mut Stats, out: &mut Vec<Violation>) {
    // u_{i,t} = floor(amount * applied rate)
    let mut comps: Vec<(u64, &'static str, u128, u128, u128)> = vec![]; // (batch, type, amount, u, withdraw rate atomics)
    for h in group {
        comps.push((h.batch_id, "bsei", h.bsei_amount.u128(), mul_rate(h.bsei_amount.u128(), atomics(h.bsei_applied_exchange_rate)).unwrap_or(0), atomics(h.bsei_withdraw_rate)));
        comps.push((h.batch_id, "stsei", h.stsei_amount.u128(), mul_rate(h.stsei_amount.u128(), atomics(h.stsei_applied_exchange_rate)).unwrap_or(0), atomics(h.stsei_withdraw_rate)));
    }
    let total_u: u128 = comps.iter().map(|c| c.3).sum();
    if total_u == 0 {
        return;
    }
    if arrived < total_u {
        stats.probe("c06_loss_branch");
    } else if arrived > total_u {
        stats.probe("c06_surplus_branch");
    }
    stats.check("c06_group_spread");
    for (b, t, amount, u, wr) in comps {
        if amount == 0 {
            continue;
        }
        // |wr*amount/1e18 - u*arrived/U| <= 4 + amount*1e-18, compared in units of 1e-18
        let x = Uint512::from(Uint256::from(wr) * Uint256::from(amount));
        let y = Uint512::from(Uint256::from(u) * Uint256::from(arrived)) * Uint512::from(ONE) / Uint512::from(total_u);
        let diff = if x > y { x - y } else { y - x };
        let tol = Uint512::from(4u128) * Uint512::from(ONE) + Uint512::from(amount);
        if diff > tol {
            viol(out, "C06", "unbonding_loss_spread_pro_rata", ctx.idx, "hub.process_withdraw_rate:spread", format!("batch {} {}: amount {} u {} withdraw rate {} but pro-rata share of {} arrived over {} requested is {}", b, t, amount, u, dec(wr), arrived, total_u, muldiv(u, arrived, total_u).unwrap_or(0)));
        }
    }
}
