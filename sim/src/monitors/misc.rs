//! C12 (in-situ plan checks), C13 (validator removal), C18 (token conservation and
//! allowance model), C20 (parameter model), C10 (static part: token addresses immutable).

use super::{layout_before, viol, Mon};
use crate::chain::*;
use crate::obs::Obs;
use crate::ops::{Op, Tok};
use crate::sim::{Stats, StepCtx, Violation};
use crate::wasm::MsgRec;
use cosmwasm_std::Decimal;
use cw20::Expiration;
use serde_json::Value;
use std::collections::{BTreeMap, BTreeSet};

// ======================================================================= C12

fn check_delegation_plan(ctx: &StepCtx, what: &str, amount: u128, targets: &BTreeMap<String, u128>, plan: &BTreeMap<String, u128>, stats: &mut Stats, out: &mut Vec<Violation>) {
    stats.check("c12_delegation_plan");
    let n = targets.len() as u128;
    if n == 0 {
        return;
    }
    let total: u128 = targets.values().sum::<u128>() + amount;
    let sum: u128 = plan.values().sum();
    if sum != amount {
        viol(out, "C12", "delegation_plan_distributes_whole_amount", ctx.idx, "registry.calculate_delegations:sum", format!("{}: plan {:?} sums to {} for amount {} over {:?}", what, plan, sum, amount, targets));
    }
    let ceil = (total + n - 1) / n;
    for (v, p) in plan {
        let cur = match targets.get(v) {
            Some(c) => *c,
            None => {
                viol(out, "C12", "delegation_plan_targets_listed_validators", ctx.idx, "registry.calculate_delegations:unlisted", format!("{}: {} not among {:?}", what, v, targets));
                continue;
            }
        };
        if *p > 0 && cur * n > total {
            viol(out, "C12", "nothing_to_validator_above_even_share", ctx.idx, "registry.calculate_delegations:above_share", format!("{}: {} holds {} > even share {}/{} but gets {}", what, v, cur, total, n, p));
        }
        if *p > 0 && cur + p > ceil {
            viol(out, "C12", "no_validator_lifted_above_even_share", ctx.idx, "registry.calculate_delegations:lifted", format!("{}: {} lifted {} -> {} above ceil({}/{})", what, v, cur, cur + p, total, n));
        }
    }
    if targets.values().any(|c| *c == 0) {
        stats.probe("c12_validator_with_zero_delegation");
    }
    let vals: Vec<&u128> = targets.values().collect();
    if vals.windows(2).any(|w| w[0] == w[1]) {
        stats.probe("c12_ties");
    }
}

/// The registry's answer to GetValidatorsForDelegation (the list every plan is computed over)
/// names exactly the registered validators — the deployment's initial list changed only by
/// committed AddValidator / RemoveValidator messages — each with the hub's live delegation.
pub fn c12_registry_model(m: &mut Mon, ctx: &StepCtx, stats: &mut Stats, out: &mut Vec<Violation>) {
    let model = match m.registry_model.as_mut() {
        Some(x) => x,
        None => return,
    };
    if let Some(o) = ctx.out {
        if o.ok {
            for c in &o.calls {
                if !c.ok {
                    continue;
                }
                match c.exec() {
                    Some((REGISTRY, "add_validator", body)) => {
                        if let Some(a) = body.get("validator").and_then(|v| v.get("address")).and_then(|a| a.as_str()) {
                            model.insert(a.to_string());
                        }
                    }
                    Some((REGISTRY, "remove_validator", body)) => {
                        if let Some(a) = body.get("address").and_then(|a| a.as_str()) {
                            model.remove(a);
                        }
                    }
                    _ => {}
                }
            }
        }
    }
    let reg = match &ctx.post.registry {
        Some(r) => r,
        None => return,
    };
    stats.check("c12_registry_model");
    if reg.len() > 10 {
        stats.probe("c12_more_than_ten_registered_validators");
    }
    let listed: BTreeSet<String> = reg.iter().map(|v| v.address.clone()).collect();
    if listed != *model || listed.len() != reg.len() {
        let msg = format!("GetValidatorsForDelegation lists {:?} but the registered set (deployment + committed add / remove messages) is {:?} (after {:?})", reg.iter().map(|v| &v.address).collect::<Vec<_>>(), model, ctx.top());
        viol(out, "C12", "plan_candidates_are_the_registered_validators", ctx.idx, "registry.GetValidatorsForDelegation:set", msg.clone());
        viol(out, "C13", "removed_validator_leaves_registry", ctx.idx, "registry.GetValidatorsForDelegation:set", msg);
        return;
    }
    for v in reg {
        let live = ctx.post_w.delegation(HUB, &v.address);
        if v.total_delegated.u128() != live {
            viol(out, "C12", "plan_candidates_report_live_delegations", ctx.idx, "registry.GetValidatorsForDelegation:total_delegated", format!("{} is reported with {} delegated, the hub's delegation is {}", v.address, v.total_delegated, live));
            break;
        }
    }
}

pub fn c12_plans(_m: &mut Mon, ctx: &StepCtx, stats: &mut Stats, out: &mut Vec<Violation>) {
    let o = match ctx.out {
        Some(o) if o.ok => o,
        _ => return,
    };
    let registered: Vec<String> = ctx.post.registry.as_ref().map(|r| r.iter().map(|v| v.address.clone()).collect()).unwrap_or_default();
    for c in &o.calls {
        match c.exec() {
            Some((HUB, v, _)) if matches!(v, "bond" | "bond_for_st_sei" | "bond_rewards") => {
                let layout = layout_before(ctx, c.idx);
                let targets: BTreeMap<String, u128> = registered.iter().map(|r| (r.clone(), layout.get(r).copied().unwrap_or(0))).collect();
                let mut plan: BTreeMap<String, u128> = BTreeMap::new();
                for k in o.children(c.idx) {
                    if let MsgRec::Delegate { validator, amount } = &k.msg {
                        *plan.entry(validator.clone()).or_insert(0) += amount;
                    }
                }
                check_delegation_plan(ctx, v, c.funds_of(DENOM), &targets, &plan, stats, out);
            }
            Some((HUB, "redelegate_proxy", body)) => {
                // the redelegation plan of one source validator may be spread over several proxy
                // calls: evaluate it once per source, at its first call, over the whole transaction
                let src = body.get("src_validator").and_then(|s| s.as_str()).unwrap_or("").to_string();
                let first = o.calls.iter().find(|k| k.ok && matches!(k.exec(), Some((HUB, "redelegate_proxy", b)) if b.get("src_validator").and_then(|s| s.as_str()) == Some(src.as_str()))).map(|k| k.idx);
                if first != Some(c.idx) {
                    continue;
                }
                let layout = layout_before(ctx, c.idx);
                let amount = layout.get(&src).copied().unwrap_or(0);
                let targets: BTreeMap<String, u128> = registered.iter().filter(|r| **r != src).map(|r| (r.clone(), layout.get(r).copied().unwrap_or(0))).collect();
                let mut plan: BTreeMap<String, u128> = BTreeMap::new();
                for k in &o.calls {
                    if let MsgRec::Redelegate { src: s2, dst, amount } = &k.msg {
                        if *s2 == src {
                            *plan.entry(dst.clone()).or_insert(0) += amount;
                        }
                    }
                }
                check_delegation_plan(ctx, "redelegation", amount, &targets, &plan, stats, out);
            }
            Some((HUB, "receive", _)) => {
                let und: Vec<(String, u128)> = o.children(c.idx).filter_map(|k| if let MsgRec::Undelegate { validator, amount } = &k.msg { Some((validator.clone(), *amount)) } else { None }).collect();
                // the amount the hub asked the plan for: the closing batch at its recorded rates
                if let (Some(pre), Some(post)) = (&ctx.pre.hub, &ctx.post.hub) {
                    if post.history.len() == pre.history.len() + 1 {
                        let h = &post.history[post.history.len() - 1];
                        let want = crate::refmath::mul_rate(h.bsei_amount.u128(), crate::refmath::atomics(h.bsei_applied_exchange_rate)).unwrap_or(0) + crate::refmath::mul_rate(h.stsei_amount.u128(), crate::refmath::atomics(h.stsei_applied_exchange_rate)).unwrap_or(0);
                        let got: u128 = und.iter().map(|u| u.1).sum();
                        stats.check("c12_undelegation_exact_amount");
                        if got != want {
                            viol(out, "C12", "undelegation_plan_removes_exact_amount", ctx.idx, "registry.calculate_undelegations:amount", format!("batch {} asked for {} to be undelegated from {:?} but the emitted plan {:?} sums to {}", h.batch_id, want, layout_before(ctx, c.idx), und, got));
                        }
                    }
                }
                if und.is_empty() {
                    continue;
                }
                stats.check("c12_undelegation_plan");
                let layout = layout_before(ctx, c.idx);
                let n = layout.len() as u128;
                let total: u128 = layout.values().sum();
                let amount: u128 = und.iter().map(|u| u.1).sum();
                if n == 0 || amount > total {
                    viol(out, "C12", "undelegation_within_total", ctx.idx, "registry.calculate_undelegations:exceeds_total", format!("undelegating {} from {:?}", amount, layout));
                    continue;
                }
                let floor = (total - amount) / n;
                let mut per: BTreeMap<String, u128> = BTreeMap::new();
                for (v, a) in &und {
                    *per.entry(v.clone()).or_insert(0) += a;
                }
                for (v, a) in &per {
                    let cur = layout.get(v).copied().unwrap_or(0);
                    if *a > cur {
                        viol(out, "C12", "never_undelegate_more_than_held", ctx.idx, "registry.calculate_undelegations:more_than_held", format!("{} holds {} but {} undelegated", v, cur, a));
                    } else if cur - a < floor {
                        viol(out, "C12", "no_validator_pushed_below_even_share", ctx.idx, "registry.calculate_undelegations:below_share", format!("{} pushed {} -> {} below floor(({}-{})/{})", v, cur, cur - a, total, amount, n));
                    }
                }
            }
            _ => {}
        }
    }
}


/// Direct probe of the two planning functions (the real `common.rs` code, called as the hub
/// and the registry call it) at the delegation layout the run has just reached: boundary
/// amounts around the layout's total and a few derived ones, in the registry's ascending
/// order, the hub's descending order and one rotated (unsorted) order. A panic inside the
/// function is a wasm trap for the calling contract and counts as a failure of the plan.
pub fn c12_probe(_m: &mut Mon, ctx: &StepCtx, stats: &mut Stats, out: &mut Vec<Violation>) {
    use basset_sei_validators_registry::common::{calculate_delegations, calculate_undelegations};
    use basset_sei_validators_registry::registry::ValidatorResponse;
    use cosmwasm_std::Uint128;
    use std::panic::{catch_unwind, AssertUnwindSafe};
    let reg = match &ctx.post.registry {
        Some(r) if !r.is_empty() => r,
        _ => return,
    };
    let changed = ctx.pre.registry.as_ref() != Some(reg);
    if !changed && ctx.idx % 16 != 0 {
        return;
    }
    stats.check("c12_probe_layout");
    let n = reg.len();
    let total: u128 = reg.iter().map(|v| v.total_delegated.u128()).sum();
    let mut h = crate::rng::mix(&[ctx.idx as u64, total as u64, n as u64, 0xC12]);
    let mut orders: Vec<Vec<ValidatorResponse>> = vec![reg.clone()];
    let mut desc = reg.clone();
    desc.sort_by(|a, b| b.total_delegated.cmp(&a.total_delegated));
    orders.push(desc);
    if n > 2 {
        let mut rot = reg.clone();
        rot.rotate_left(1 + (crate::rng::splitmix64(&mut h) as usize) % (n - 1));
        orders.push(rot);
    }
    let nn = n as u128;
    let mut amounts: Vec<u128> = vec![0, 1, nn.saturating_sub(1), nn, total, total.saturating_sub(1), total.saturating_sub(nn.saturating_sub(1)), total.saturating_sub(nn), total / 2, total + 1];
    for _ in 0..3 {
        let r = crate::rng::splitmix64(&mut h) as u128;
        amounts.push(if total > 0 { r % (total + 1) } else { r % 1000 });
    }
    amounts.sort();
    amounts.dedup();
    let was = crate::wasm::IN_CONTRACT.with(|c| c.replace(true));
    for (oi, order) in orders.iter().enumerate() {
        let held: Vec<u128> = order.iter().map(|v| v.total_delegated.u128()).collect();
        for &a in &amounts {
            // --- undelegation plan
            let r = catch_unwind(AssertUnwindSafe(|| calculate_undelegations(Uint128::new(a), order.clone())));
            stats.check("c12_probe_undelegation");
            match r {
                Err(_) => viol(out, "C12", "undelegation_plan_fails_only_beyond_total", ctx.idx, "registry.calculate_undelegations:probe:trap", format!("calculate_undelegations({}, {:?}) [order {}] aborted (wasm trap)", a, held, oi)),
                Ok(Err(e)) => {
                    if a <= total {
                        viol(out, "C12", "undelegation_plan_fails_only_beyond_total", ctx.idx, "registry.calculate_undelegations:probe:failed", format!("calculate_undelegations({}, {:?}) [order {}] failed: {}", a, held, oi, e));
                    } else {
                        stats.probe("c12_probe_request_beyond_total_refused");
                    }
                }
                Ok(Ok(plan)) => {
                    if a > total {
                        viol(out, "C12", "undelegation_within_total", ctx.idx, "registry.calculate_undelegations:probe:exceeds_total", format!("calculate_undelegations({}, {:?}) accepted a request beyond the total", a, held));
                        continue;
                    }
                    let sum: u128 = plan.iter().map(|x| x.u128()).sum();
                    if plan.len() != n || sum != a {
                        viol(out, "C12", "undelegation_plan_removes_exact_amount", ctx.idx, "registry.calculate_undelegations:probe:amount", format!("calculate_undelegations({}, {:?}) [order {}] = {:?} sums to {}", a, held, oi, plan, sum));
                        continue;
                    }
                    let floor = (total - a) / nn;
                    for (i, p) in plan.iter().enumerate() {
                        if p.u128() > held[i] {
                            viol(out, "C12", "never_undelegate_more_than_held", ctx.idx, "registry.calculate_undelegations:probe:more_than_held", format!("calculate_undelegations({}, {:?}) [order {}] = {:?}", a, held, oi, plan));
                        } else if p.u128() > 0 && held[i] - p.u128() < floor {
                            viol(out, "C12", "no_validator_pushed_below_even_share", ctx.idx, "registry.calculate_undelegations:probe:below_share", format!("calculate_undelegations({}, {:?}) [order {}] = {:?} leaves less than {}", a, held, oi, plan, floor));
                        }
                    }
                    if a == total && total > 0 {
                        stats.probe("c12_probe_full_undelegation");
                    }
                }
            }
            // --- delegation plan
            let r = catch_unwind(AssertUnwindSafe(|| calculate_delegations(Uint128::new(a), order)));
            stats.check("c12_probe_delegation");
            match r {
                Err(_) => viol(out, "C12", "delegation_plan_never_fails", ctx.idx, "registry.calculate_delegations:probe:trap", format!("calculate_delegations({}, {:?}) [order {}] aborted (wasm trap)", a, held, oi)),
                Ok(Err(e)) => viol(out, "C12", "delegation_plan_never_fails", ctx.idx, "registry.calculate_delegations:probe:failed", format!("calculate_delegations({}, {:?}) [order {}] failed: {}", a, held, oi, e)),
                Ok(Ok((left, plan))) => {
                    let sum: u128 = plan.iter().map(|x| x.u128()).sum();
                    if plan.len() != n || !left.is_zero() || sum != a {
                        viol(out, "C12", "delegation_plan_distributes_whole_amount", ctx.idx, "registry.calculate_delegations:probe:sum", format!("calculate_delegations({}, {:?}) [order {}] = ({}, {:?})", a, held, oi, left, plan));
                        continue;
                    }
                    let t = total + a;
                    let ceil = (t + nn - 1) / nn;
                    for (i, p) in plan.iter().enumerate() {
                        let p = p.u128();
                        if p > 0 && held[i] * nn > t {
                            viol(out, "C12", "nothing_to_validator_above_even_share", ctx.idx, "registry.calculate_delegations:probe:above_share", format!("calculate_delegations({}, {:?}) [order {}] = {:?}", a, held, oi, plan));
                        }
                        if p > 0 && held[i] + p > ceil {
                            viol(out, "C12", "no_validator_lifted_above_even_share", ctx.idx, "registry.calculate_delegations:probe:lifted", format!("calculate_delegations({}, {:?}) [order {}] = {:?} above ceil {}", a, held, oi, plan, ceil));
                        }
                    }
                }
            }
        }
    }
    crate::wasm::IN_CONTRACT.with(|c| c.set(was));
}

// ======================================================================= C13

/// "Subsequent bonds are delegated only to registered validators": once a validator has been
/// removed (and not added again) no later bond, re-bond or redelegation of the hub targets it.
pub fn c13_after_removal(m: &mut Mon, ctx: &StepCtx, stats: &mut Stats, out: &mut Vec<Violation>) {
    let o = match ctx.out {
        Some(o) if o.ok => o,
        _ => return,
    };
    let post_reg: Vec<String> = ctx.post.registry.as_ref().map(|r| r.iter().map(|v| v.address.clone()).collect()).unwrap_or_default();
    if let Some(Op::RemoveValidator { validator, .. }) = ctx.op {
        if !post_reg.contains(validator) {
            m.removed_validators.insert(validator.clone());
        }
    }
    m.removed_validators.retain(|v| !post_reg.contains(v));
    if m.removed_validators.is_empty() {
        return;
    }
    for c in &o.calls {
        if c.sender != HUB || !c.ok {
            continue;
        }
        let target = match &c.msg {
            MsgRec::Delegate { validator, .. } => Some(validator),
            MsgRec::Redelegate { dst, .. } => Some(dst),
            _ => None,
        };
        if let Some(t) = target {
            stats.check("c13_delegation_after_removal");
            if m.removed_validators.contains(t) {
                viol(out, "C13", "bonds_after_removal_go_to_registered_validators", ctx.idx, "hub:delegation_to_removed_validator", format!("hub delegated / redelegated to {} which was removed from the registry (registered: {:?}; step {:?})", t, post_reg, ctx.top()));
            }
        }
    }
}

pub fn c13_remove_validator(_m: &mut Mon, ctx: &StepCtx, stats: &mut Stats, out: &mut Vec<Violation>) {
    let (removed, signer) = match ctx.op {
        Some(Op::RemoveValidator { validator, sender }) => (validator.clone(), sender.clone()),
        _ => return,
    };
    let pre_reg: Vec<String> = ctx.pre.registry.as_ref().map(|r| r.iter().map(|v| v.address.clone()).collect()).unwrap_or_default();
    let post_reg: Vec<String> = ctx.post.registry.as_ref().map(|r| r.iter().map(|v| v.address.clone()).collect()).unwrap_or_default();
    let o = match ctx.out {
        Some(o) => o,
        None => return,
    };
    if !o.ok {
        if pre_reg != post_reg {
            viol(out, "C13", "failed_removal_changes_nothing", ctx.idx, "registry.RemoveValidator:failed_changed", "registry changed by a failed removal".into());
        }
        if pre_reg.len() == 1 && pre_reg[0] == removed {
            stats.probe("c13_last_validator_removal_refused");
        }
        return;
    }
    stats.check("c13_removal");
    if ctx.pre_w.delegation(HUB, &removed) > 0 && ctx.pre_w.total_delegated(HUB) < post_reg.len() as u128 + 1 {
        stats.probe("c13_removal_from_pool_smaller_than_validator_count");
    }
    if post_reg.contains(&removed) {
        viol(out, "C13", "removed_validator_leaves_registry", ctx.idx, "registry.RemoveValidator:still_registered", format!("{} still registered", removed));
    }
    if post_reg.is_empty() {
        viol(out, "C13", "never_removes_last_validator", ctx.idx, "registry.RemoveValidator:emptied", "registry emptied".into());
    }
    let owner_ok = ctx.pre.registry_cfg.is_some();
    let _ = (owner_ok, signer);
    let d_pre_v = ctx.pre_w.delegation(HUB, &removed);
    let can = ctx.pre_w.can_redelegate(HUB, &removed);
    let redel: Vec<(String, String, u128)> = o.calls.iter().filter_map(|c| if let MsgRec::Redelegate { src, dst, amount } = &c.msg { Some((src.clone(), dst.clone(), *amount)) } else { None }).collect();
    if d_pre_v > 0 && can >= d_pre_v {
        let sum: u128 = redel.iter().filter(|r| r.0 == removed).map(|r| r.2).sum();
        if sum != d_pre_v {
            viol(out, "C13", "whole_stake_redelegated", ctx.idx, "registry.RemoveValidator:redelegated_amount", format!("{} held {} but {} was redelegated", removed, d_pre_v, sum));
        }
        if ctx.post_w.delegation(HUB, &removed) != 0 {
            viol(out, "C13", "nothing_left_on_removed_validator", ctx.idx, "registry.RemoveValidator:stake_left", format!("{} still holds {}", removed, ctx.post_w.delegation(HUB, &removed)));
        }
        for r in &redel {
            if !post_reg.contains(&r.1) {
                viol(out, "C13", "redelegation_targets_registered", ctx.idx, "registry.RemoveValidator:unregistered_target", format!("redelegated {} to unregistered {}", r.2, r.1));
            }
        }
        if ctx.pre_w.pending_rewards_of(HUB).len() > 0 {
            stats.probe("c13_removal_with_pending_rewards");
        }
    } else if d_pre_v > 0 {
        stats.probe("c13_removal_with_blocked_redelegation");
        if !redel.is_empty() || ctx.post_w.staking.delegations != ctx.pre_w.staking.delegations {
            viol(out, "C13", "blocked_redelegation_leaves_staking_untouched", ctx.idx, "registry.RemoveValidator:blocked_touched", "staking state changed although redelegation was blocked".into());
        }
    } else {
        stats.probe("c13_removal_of_validator_without_stake");
    }
    // delegated minus booked is unchanged (books through the State query on both sides)
    if let (Some(ps), Some(qs)) = (ctx.pre.hub.as_ref().and_then(|h| h.state.as_ref()), ctx.post.hub.as_ref().and_then(|h| h.state.as_ref())) {
        let rebonded: u128 = o.find(HUB, "bond_rewards").map(|c| c.funds_of(DENOM)).sum();
        let (d0, d1) = (ctx.pre_w.total_delegated(HUB), ctx.post_w.total_delegated(HUB));
        let b0 = ps.total_bond_bsei_amount.u128() + ps.total_bond_stsei_amount.u128();
        let b1 = qs.total_bond_bsei_amount.u128() + qs.total_bond_stsei_amount.u128();
        if d1 != d0 + rebonded {
            viol(out, "C13", "delegated_changes_only_by_rebonded_rewards", ctx.idx, "registry.RemoveValidator:delegated_delta", format!("delegated {} -> {} with {} re-bonded", d0, d1, rebonded));
        }
        if (d1 as i128 - b1 as i128) != (d0 as i128 - b0 as i128) {
            viol(out, "C13", "delegated_minus_booked_unchanged", ctx.idx, "registry.RemoveValidator:books", format!("delegated-booked {} -> {}", d0 as i128 - b0 as i128, d1 as i128 - b1 as i128));
        }
    }
}

// ======================================================================= C18

pub fn c18_supply(_m: &mut Mon, idx: usize, obs: &Obs, stats: &mut Stats, out: &mut Vec<Violation>) {
    for tok in [Tok::B, Tok::St] {
        if let Some(t) = obs.t(tok) {
            stats.check("c18_supply_sum");
            let sum: u128 = t.accounts.iter().map(|a| t.bal.get(a).copied().unwrap_or(0)).sum();
            let extra: u128 = t.bal.iter().filter(|(a, _)| !t.accounts.contains(a)).map(|(_, b)| *b).sum();
            if sum + extra != t.supply {
                let sig = if idx == usize::MAX { format!("{}.instantiate:supply_sum", tok.addr()) } else { format!("{}:supply_sum", tok.addr()) };
                viol(out, "C18", "balances_sum_to_total_supply", if idx == usize::MAX { 0 } else { idx }, &sig, format!("{:?}: balances sum to {} but total supply is {}", tok, sum + extra, t.supply));
            }
            if t.minter.as_deref() != Some(HUB) {
                viol(out, "C18", "minter_is_hub", if idx == usize::MAX { 0 } else { idx }, &format!("{}:minter", tok.addr()), format!("{:?}: minter {:?}", tok, t.minter));
            }
        }
    }
}

fn expired(e: &Expiration, w: &World) -> bool {
    match e {
        Expiration::AtHeight(h) => w.height >= *h,
        Expiration::AtTime(t) => w.time >= t.seconds(),
        Expiration::Never {} => false,
    }
}

/// the account enumeration the supply sum relies on is complete and pages consistently
fn c18_enumeration(ctx: &StepCtx, stats: &mut Stats, out: &mut Vec<Violation>) {
    use cw20::{AllAccountsResponse, Cw20QueryMsg};
    if ctx.idx % 8 != 5 {
        return;
    }
    for tok in [Tok::B, Tok::St] {
        let t = match ctx.post.t(tok) {
            Some(t) => t,
            None => continue,
        };
        stats.check("c18_account_enumeration");
        for (a, b) in &t.bal {
            if *b > 0 && !t.accounts.contains(a) {
                viol(out, "C18", "account_enumeration_complete", ctx.idx, &format!("{}.AllAccounts:missing", tok.addr()), format!("{:?}: {} holds {} but AllAccounts does not list it", tok, a, b));
                break;
            }
        }
        let page = 1 + (ctx.idx as u32 / 8 % 3);
        let mut paged: Vec<String> = vec![];
        let mut start: Option<String> = None;
        for _ in 0..(t.accounts.len() + 2) {
            match crate::wasm::query_typed::<_, AllAccountsResponse>(ctx.post_w, tok.addr(), &Cw20QueryMsg::AllAccounts { start_after: start.clone(), limit: Some(page) }) {
                Ok(p) => {
                    if p.accounts.is_empty() {
                        break;
                    }
                    start = p.accounts.last().cloned();
                    paged.extend(p.accounts);
                }
                Err(e) => {
                    viol(out, "C18", "account_enumeration_complete", ctx.idx, &format!("{}.AllAccounts:failed", tok.addr()), format!("AllAccounts(start {:?}, limit {}) failed: {}", start, page, e));
                    break;
                }
            }
        }
        if paged != t.accounts {
            viol(out, "C18", "account_enumeration_complete", ctx.idx, &format!("{}.AllAccounts:paging", tok.addr()), format!("{:?}: AllAccounts in pages of {} gives {:?}, in one page {:?}", tok, page, paged, t.accounts));
        }
    }
}

pub fn c18_all(m: &mut Mon, ctx: &StepCtx, stats: &mut Stats, out: &mut Vec<Violation>) {
    c18_supply(m, ctx.idx, ctx.post, stats, out);
    c18_enumeration(ctx, stats, out);
    let o = match ctx.out {
        Some(o) => o,
        None => return,
    };
    let hub_addr = HUB;
    // 3. mint / burn only by the hub (every call in every tree)
    if o.ok {
        for c in &o.calls {
            for tok in [Tok::B, Tok::St] {
                match c.exec() {
                    Some((t, "mint", _)) if t == tok.addr() => {
                        stats.check("c18_mint");
                        if c.sender != hub_addr {
                            viol(out, "C18", "only_hub_mints", ctx.idx, &format!("{}.mint:sender", tok.addr()), format!("{} minted {:?}", c.sender, tok));
                        }
                    }
                    Some((t, "burn", _)) if t == tok.addr() => {
                        stats.check("c18_burn");
                        if c.sender != hub_addr {
                            viol(out, "C18", "only_hub_burns", ctx.idx, &format!("{}.burn:sender", tok.addr()), format!("{} burned {:?}", c.sender, tok));
                        }
                    }
                    _ => {}
                }
            }
            // 5. burns make the hub refresh its rates in the same transaction
            let needs = matches!(c.exec(), Some((STSEI, "burn", _)) | Some((STSEI, "burn_from", _)) | Some((BSEI, "burn_from", _)));
            if needs {
                stats.check("c18_burn_triggers_check_slashing");
                // a hub pricing handler (CheckSlashing or any handler that starts with the slashing
                // check) that runs after the supply change, anywhere later in the same transaction
                let has = o.calls.iter().skip(c.idx + 1).any(|k| k.ok && matches!(k.exec(), Some((h, v, _)) if h == hub_addr && matches!(v, "check_slashing" | "bond" | "bond_for_st_sei" | "bond_rewards" | "receive")));
                if !has {
                    viol(out, "C18", "burn_refreshes_hub_rates", ctx.idx, &format!("{}:burn_without_check_slashing", c.exec().map(|e| e.0).unwrap_or("")), "burn without a successful hub CheckSlashing in the same transaction".into());
                }
            }
        }
    }
    // 5b. ... and the refresh is real: after a committed allowance burn the rates the hub has
    // stored are the rates its State query computes from the new supply
    if o.ok && matches!(ctx.op, Some(Op::BurnFrom { .. })) {
        if let Some(h) = &ctx.post.hub {
            if let (Some(raw), Some(st)) = (&h.raw, &h.state) {
                stats.check("c18_burn_refresh_is_stored");
                if h.params.paused.unwrap_or(false) {
                    stats.probe("c18_burn_from_committed_while_hub_paused");
                }
                if raw.bsei_exchange_rate != st.bsei_exchange_rate || raw.stsei_exchange_rate != st.stsei_exchange_rate {
                    viol(out, "C18", "burn_refreshes_hub_rates", ctx.idx, "hub.State:stale_after_burn", format!("after BurnFrom the hub stores rates ({}, {}) but its State query computes ({}, {})", raw.bsei_exchange_rate, raw.stsei_exchange_rate, st.bsei_exchange_rate, st.stsei_exchange_rate));
                }
            }
        }
    }
    // 2 + 4: direct token operations against the allowance / balance model
    let op = match ctx.op {
        Some(op) => op,
        None => return,
    };
    let bal = |obs: &Obs, t: Tok, a: &str| obs.t(t).and_then(|x| x.bal.get(a).copied()).unwrap_or(0);
    let sup = |obs: &Obs, t: Tok| obs.t(t).map(|x| x.supply).unwrap_or(0);
    match op {
        Op::Transfer { tok, from, to, amount } if o.ok => {
            stats.check("c18_transfer");
            let a = amount.u128();
            let moved_ok = if from == to { bal(ctx.pre, *tok, from) == bal(ctx.post, *tok, from) } else { bal(ctx.pre, *tok, from) == bal(ctx.post, *tok, from) + a && bal(ctx.post, *tok, to) == bal(ctx.pre, *tok, to) + a };
            if !moved_ok || sup(ctx.pre, *tok) != sup(ctx.post, *tok) {
                viol(out, "C18", "transfer_moves_exactly_amount", ctx.idx, &format!("{}.transfer:delta", tok.addr()), format!("transfer {} {}->{}: {}/{} -> {}/{}", a, from, to, bal(ctx.pre, *tok, from), bal(ctx.pre, *tok, to), bal(ctx.post, *tok, from), bal(ctx.post, *tok, to)));
            }
        }
        Op::IncAllowance { tok, owner, spender, amount, exp } => {
            if o.ok {
                let k = (tok.idx(), owner.clone(), spender.clone());
                let e = m.allow_model.entry(k.clone()).or_insert((0, Expiration::Never {}));
                e.0 += amount.u128();
                if let Some(x) = exp.to_msg() {
                    e.1 = x;
                }
                // a grant keeps the stored expiration unless it names a new one
                let me = m.allow_model.get(&k).cloned().unwrap();
                if let Some(stored) = ctx.post.t(*tok).and_then(|t| t.allow.get(&(owner.clone(), spender.clone()))) {
                    stats.check("c18_allowance_grant");
                    if me.0 > 0 && (stored.allowance.u128() != me.0 || stored.expires != me.1) {
                        viol(out, "C18", "allowance_grant_follows_model", ctx.idx, &format!("{}.increase_allowance:stored_allowance", tok.addr()), format!("after IncreaseAllowance {} {:?} by {} for {}: stored ({}, {:?}), grants so far give ({}, {:?})", amount, exp, owner, spender, stored.allowance, stored.expires, me.0, me.1));
                    }
                }
            }
        }
        Op::DecAllowance { tok, owner, spender, amount, exp } => {
            if o.ok {
                let k = (tok.idx(), owner.clone(), spender.clone());
                let cur = m.allow_model.get(&k).cloned();
                match cur {
                    Some((a, e)) if amount.u128() < a => {
                        let ne = exp.to_msg().unwrap_or(e);
                        m.allow_model.insert(k, (a - amount.u128(), ne));
                    }
                    _ => {
                        m.allow_model.remove(&k);
                    }
                }
                // the stored allowance follows the same rule (a remaining allowance keeps its
                // expiration unless the message names a new one)
                stats.check("c18_allowance_decrease");
                let k = (tok.idx(), owner.clone(), spender.clone());
                if let (Some(me), Some(stored)) = (m.allow_model.get(&k), ctx.post.t(*tok).and_then(|t| t.allow.get(&(owner.clone(), spender.clone())))) {
                    if stored.allowance.u128() != me.0 || stored.expires != me.1 {
                        viol(out, "C18", "allowance_grant_follows_model", ctx.idx, &format!("{}.decrease_allowance:stored_allowance", tok.addr()), format!("after DecreaseAllowance {} {:?} by {} for {}: stored ({}, {:?}), grants so far give ({}, {:?})", amount, exp, owner, spender, stored.allowance, stored.expires, me.0, me.1));
                    }
                }
            }
        }
        Op::TransferFrom { tok, spender, owner, amount, .. } | Op::BurnFrom { tok, spender, owner, amount } | Op::SendFrom { tok, spender, owner, amount, .. } => {
            stats.check("c18_allowance_op");
            let k = (tok.idx(), owner.clone(), spender.clone());
            let a = amount.u128();
            let model = m.allow_model.get(&k).cloned();
            let (granted, exp_ok) = match &model {
                Some((g, e)) => (*g, !expired(e, ctx.pre_w)),
                None => (0, false),
            };
            if let Some((_, e)) = &model {
                if expired(e, ctx.pre_w) {
                    stats.probe("c18_allowance_expired_at_use");
                }
            }
            if o.ok {
                if model.is_none() || !exp_ok || a > granted {
                    viol(out, "C18", "allowance_ops_within_unexpired_allowance", ctx.idx, &format!("{}.{}:beyond_allowance", tok.addr(), op.name()), format!("{} moved {} of {}'s tokens with allowance {:?} at height {} time {}", spender, a, owner, model, ctx.pre_w.height, ctx.pre_w.time));
                } else {
                    m.allow_model.insert(k.clone(), (granted - a, model.clone().unwrap().1));
                }
                if bal(ctx.pre, *tok, owner) < a {
                    viol(out, "C18", "allowance_ops_within_balance", ctx.idx, &format!("{}.{}:beyond_balance", tok.addr(), op.name()), format!("{} moved {} but {} held {}", spender, a, owner, bal(ctx.pre, *tok, owner)));
                }
                let burn = matches!(op, Op::BurnFrom { .. });
                let hooked_burn = matches!(op, Op::SendFrom { hook, .. } if *hook != crate::ops::Hook::Nop);
                if burn && sup(ctx.pre, *tok) != sup(ctx.post, *tok) + a {
                    viol(out, "C18", "burn_from_burns_exactly_amount", ctx.idx, &format!("{}.burn_from:supply", tok.addr()), format!("supply {} -> {} for burn of {}", sup(ctx.pre, *tok), sup(ctx.post, *tok), a));
                }
                if !burn && !hooked_burn && sup(ctx.pre, *tok) != sup(ctx.post, *tok) {
                    viol(out, "C18", "transfer_conserves_supply", ctx.idx, &format!("{}.{}:supply", tok.addr(), op.name()), format!("supply {} -> {}", sup(ctx.pre, *tok), sup(ctx.post, *tok)));
                }
            }
            // the stored allowance must agree with the model afterwards
            if let Some(t) = ctx.post.t(*tok) {
                if let Some(stored) = t.allow.get(&(owner.clone(), spender.clone())) {
                    let me = m.allow_model.get(&k).map(|x| x.0).unwrap_or(0);
                    if stored.allowance.u128() != me {
                        viol(out, "C18", "allowance_deducted_exactly", ctx.idx, &format!("{}.{}:allowance_value", tok.addr(), op.name()), format!("stored allowance {} vs model {}", stored.allowance, me));
                    }
                }
            }
        }
        Op::Send { tok, from, to, amount, hook } if o.ok && *hook == crate::ops::Hook::Nop => {
            stats.check("c18_send");
            let a = amount.u128();
            if from != to && (bal(ctx.pre, *tok, from) != bal(ctx.post, *tok, from) + a || bal(ctx.post, *tok, to) != bal(ctx.pre, *tok, to) + a) || sup(ctx.pre, *tok) != sup(ctx.post, *tok) {
                viol(out, "C18", "send_moves_exactly_amount", ctx.idx, &format!("{}.send:delta", tok.addr()), format!("send {} {}->{}", a, from, to));
            }
        }
        _ => {}
    }
}

// ======================================================================= C20

fn get<'a>(v: &'a Value, k: &str) -> &'a Value {
    v.get(k).unwrap_or(&Value::Null)
}

pub fn c20_params(m: &mut Mon, ctx: &StepCtx, stats: &mut Stats, out: &mut Vec<Violation>) {
    let one = Decimal::one();
    if let Some(h) = &ctx.post.hub {
        stats.check("c20_ranges");
        if h.params.peg_recovery_fee > one {
            viol(out, "C20", "peg_fee_le_one", ctx.idx, "hub.Parameters:peg_recovery_fee", format!("peg_recovery_fee {}", h.params.peg_recovery_fee));
        }
        if h.params.er_threshold > one {
            viol(out, "C20", "threshold_le_one", ctx.idx, "hub.Parameters:er_threshold", format!("er_threshold {}", h.params.er_threshold));
        }
        if Some(&h.params.underlying_coin_denom) != m.underlying_denom.as_ref() {
            viol(out, "C20", "underlying_denom_immutable", ctx.idx, "hub.Parameters:underlying_coin_denom", format!("underlying denom {:?} -> {}", m.underlying_denom, h.params.underlying_coin_denom));
        }
    }
    if let Some(d) = &ctx.post.dispatcher {
        if d.krp_keeper_rate > one {
            viol(out, "C20", "keeper_rate_le_one", ctx.idx, "dispatcher.Config:krp_keeper_rate", format!("keeper rate {}", d.krp_keeper_rate));
        }
        if Some(&d.stsei_reward_denom) != m.stsei_reward_denom.as_ref() {
            viol(out, "C20", "stsei_reward_denom_immutable", ctx.idx, "dispatcher.Config:stsei_reward_denom", format!("stSei reward denom {:?} -> {}", m.stsei_reward_denom, d.stsei_reward_denom));
        }
    }
    // merge model for committed top-level updates
    let (contract, variant) = match ctx.top() {
        Some(x) => x,
        None => return,
    };
    let body = ctx.tx.and_then(|t| t.msg.get(variant)).cloned().unwrap_or(Value::Null);
    let to_v = |x: &dyn erased::Ser| x.to_value();
    let (pre_v, post_v): (Value, Value) = match (contract, variant) {
        (HUB, "update_params") => match (&ctx.pre.hub, &ctx.post.hub) {
            (Some(a), Some(b)) => (to_v(&a.params), to_v(&b.params)),
            _ => return,
        },
        (HUB, "update_config") => match (&ctx.pre.hub, &ctx.post.hub) {
            (Some(a), Some(b)) => (to_v(&a.config), to_v(&b.config)),
            _ => return,
        },
        (DISPATCHER, "update_config") | (DISPATCHER, "update_swap_contract") | (DISPATCHER, "update_oracle_contract") | (DISPATCHER, "update_swap_denom") => match (&ctx.pre.dispatcher, &ctx.post.dispatcher) {
            (Some(a), Some(b)) => (to_v(a), to_v(b)),
            _ => return,
        },
        (REWARD, "update_config") => match (&ctx.pre.reward, &ctx.post.reward) {
            (Some(a), Some(b)) => (to_v(&a.config), to_v(&b.config)),
            _ => return,
        },
        _ => return,
    };
    if !ctx.committed() {
        // rejected update changes nothing: the engine's rollback guarantees the world, the
        // query answers must agree
        if pre_v != post_v {
            viol(out, "C20", "rejected_update_changes_nothing", ctx.idx, &format!("{}.{}:rejected_changed", contract, variant), format!("{} -> {}", pre_v, post_v));
        }
        return;
    }
    stats.check("c20_merge");
    let obj = match body.as_object() {
        Some(o) => o.clone(),
        None => return,
    };
    let mut expect = pre_v.clone();
    let rename = |k: &str| -> Option<String> {
        match (contract, variant, k) {
            (HUB, "update_config", "rewards_dispatcher_contract") => Some("reward_dispatcher_contract".into()),
            (HUB, "update_config", "rewards_contract") => None,
            (DISPATCHER, "update_swap_denom", _) => None,
            _ => Some(k.to_string()),
        }
    };
    for (k, v) in &obj {
        if let Some(field) = rename(k) {
            if !v.is_null() {
                let mut nv = v.clone();
                if field == "er_threshold" {
                    if let Some(d) = v.as_str().and_then(|s| s.parse::<Decimal>().ok()) {
                        nv = Value::String(d.min(one).to_string());
                    }
                }
                if matches!(field.as_str(), "peg_recovery_fee" | "krp_keeper_rate") {
                    if let Some(d) = v.as_str().and_then(|s| s.parse::<Decimal>().ok()) {
                        nv = Value::String(d.to_string());
                    }
                }
                expect[field.as_str()] = nv;
            }
        }
    }
    if (contract, variant) == (HUB, "update_params") {
        // the pause flag is defined as cleared when omitted
        expect["paused"] = get(&body, "paused").clone();
    }
    if (contract, variant) == (HUB, "update_config") {
        expect["token_contract"] = expect["bsei_token_contract"].clone();
    }
    let mut post_cmp = post_v.clone();
    if (contract, variant) == (DISPATCHER, "update_swap_denom") {
        // the list is a set for this purpose: adding makes the denom a member and keeps the others,
        // removing drops exactly that denom (duplicates and order are not constrained)
        let d = get(&body, "swap_denom").as_str().unwrap_or("").to_string();
        let add = get(&body, "is_add").as_bool().unwrap_or(false);
        let as_set = |v: &Value| -> std::collections::BTreeSet<String> { v.as_array().map(|a| a.iter().filter_map(|x| x.as_str().map(|s| s.to_string())).collect()).unwrap_or_default() };
        let mut want = as_set(&pre_v["swap_denoms"]);
        if add {
            want.insert(d);
        } else {
            want.remove(&d);
        }
        let norm = |set: &std::collections::BTreeSet<String>| Value::Array(set.iter().map(|s| Value::String(s.clone())).collect());
        expect["swap_denoms"] = norm(&want);
        post_cmp["swap_denoms"] = norm(&as_set(&post_v["swap_denoms"]));
    }
    let post_v = post_cmp;
    if expect != post_v {
        viol(out, "C20", "update_merges_present_fields_keeps_absent_ones", ctx.idx, &format!("{}.{}:merge", contract, variant), format!("message {} on {} gave {} (expected {})", body, pre_v, post_v, expect));
    }
}

mod erased {
    use serde_json::Value;
    pub trait Ser {
        fn to_value(&self) -> Value;
    }
    impl<T: serde::Serialize> Ser for T {
        fn to_value(&self) -> Value {
            serde_json::to_value(self).unwrap_or(Value::Null)
        }
    }
}

// ================================================================ C10 static

pub fn c10_static(m: &mut Mon, ctx: &StepCtx, stats: &mut Stats, out: &mut Vec<Violation>) {
    // two-step ownership model: only the owner's committed SetOwner moves the nominee (to the
    // address named in the message), only the nominee's committed AcceptOwnership moves the owner
    if ctx.committed() {
        if let (Some((c, v)), Some(tx)) = (ctx.top(), ctx.tx) {
            if let Some(e) = m.owner_model.get_mut(c) {
                match v {
                    "set_owner" => {
                        if let Some(n) = tx.msg.get("set_owner").and_then(|b| b.get("new_owner_addr")).and_then(|x| x.as_str()) {
                            e.1 = n.to_string();
                        }
                    }
                    "accept_ownership" => e.0 = tx.sender.clone(),
                    _ => {}
                }
            }
        }
    }
    for (c, model) in &m.owner_model {
        if let Some(actual) = ctx.post.owners.get(c) {
            stats.check("c10_ownership_model");
            if actual != model {
                viol(out, "C10", "ownership_follows_two_step_model", ctx.idx, &format!("{}:ownership_model", c), format!("{}: owner/nominee are {:?} but the committed SetOwner/AcceptOwnership history gives {:?} (step {:?})", c, actual, model, ctx.top()));
            }
        }
    }
    if let Some(h) = &ctx.post.hub {
        let cur = (h.config.bsei_token_contract.clone(), h.config.stsei_token_contract.clone());
        if (m.token_addrs.0.is_some() && cur.0 != m.token_addrs.0) || (m.token_addrs.1.is_some() && cur.1 != m.token_addrs.1) {
            viol(out, "C10", "token_addresses_immutable", ctx.idx, "hub.Config:token_address_changed", format!("token addresses {:?} -> {:?}", m.token_addrs, cur));
        }
        if m.token_addrs.0.is_none() {
            m.token_addrs.0 = cur.0;
        }
        if m.token_addrs.1.is_none() {
            m.token_addrs.1 = cur.1;
        }
    }
}
