//! C14/C15 (reward pool solvency, completeness, exact proportional accrual), C16 (mirror),
//! C17 (dispatcher), C19 (global index update end to end).

use super::{hub_liquid, layout_before, viol, Mon};
use crate::chain::*;
use crate::obs::RewardObs;
use crate::ops::Tok;
use crate::refmath::*;
use crate::sim::{Stats, StepCtx, Violation};
use crate::wasm::{CallRec, ErrKind, MsgRec};
use basset::reward::HolderResponse;
use cosmwasm_std::Uint256;
use std::collections::{BTreeMap, BTreeSet};

pub fn exact_accrued(h: &HolderResponse, global_index_atomics: u128) -> Uint256 {
    let idx = atomics(h.index);
    let d = global_index_atomics.saturating_sub(idx);
    Uint256::from(atomics(h.pending_rewards)) + Uint256::from(d) * Uint256::from(h.balance.u128())
}

fn sum_exact(r: &RewardObs) -> Uint256 {
    let g = atomics(r.state.global_index);
    r.holders.iter().fold(Uint256::zero(), |a, h| a + exact_accrued(h, g))
}

fn g1_probe(pre: &RewardObs, post: &RewardObs) -> bool {
    post.state.global_index > pre.state.global_index && pre.state.total_balance.is_zero()
}

fn one256() -> Uint256 {
    Uint256::from(ONE)
}

// ================================================================= C14 + C15

pub fn c14_c15_pool(m: &mut Mon, ctx: &StepCtx, stats: &mut Stats, out: &mut Vec<Violation>) {
    let (pre, post) = match (&ctx.pre.reward, &ctx.post.reward) {
        (Some(a), Some(b)) => (a, b),
        _ => return,
    };
    let denom = post.config.reward_denom.clone();
    let bank_pre = ctx.pre_w.balance(REWARD, &denom);
    let bank_post = ctx.post_w.balance(REWARD, &denom);
    // what the reward contract paid out in this step
    let mut paid: Vec<(String, u128)> = vec![];
    if ctx.committed() {
        for c in &ctx.out.unwrap().calls {
            if c.sender == REWARD {
                if let MsgRec::BankSend { to, coins } = &c.msg {
                    for (d, a) in coins {
                        if *d == denom {
                            paid.push((to.clone(), *a));
                        }
                    }
                }
            }
        }
    }
    let paid_sum: u128 = paid.iter().map(|p| p.1).sum();
    m.delivered += (bank_post + paid_sum).saturating_sub(bank_pre);
    m.undistributed += (bank_post + paid_sum).saturating_sub(bank_pre);
    if bank_post > bank_pre && pre.state.total_balance.is_zero() {
        stats.probe("c14_delivery_while_nobody_holds_bsei");
    }
    if bank_post.saturating_sub(post.state.prev_reward_balance.u128()) > 0 && !post.state.total_balance.is_zero() && g1_probe(pre, post) {
        stats.probe("c14_carried_rewards_picked_up");
    }
    for h in &post.holders {
        m.holders_seen.insert(h.address.clone());
    }
    // ---- ledger: index update
    let (g0, g1) = (atomics(pre.state.global_index), atomics(post.state.global_index));
    if g1 < g0 {
        viol(out, "C14", "global_index_monotone", ctx.idx, "reward.State:index_fell", format!("global index {} -> {}", pre.state.global_index, post.state.global_index));
    } else if g1 > g0 {
        m.index_updates += 1;
        stats.check("c15_index_update");
        let delta = g1 - g0;
        // the holders' total accrual grows by delta x total balance: never more than the coins
        // that actually reached the contract since the previous distribution (the bound uses
        // the bank, not the contract's own prev_reward_balance record)
        stats.check("c15_distribution_bounded_by_delivery");
        let grow18 = Uint256::from(delta) * Uint256::from(pre.state.total_balance.u128());
        let have18 = Uint256::from(m.undistributed) * one256();
        if grow18 > have18 {
            let msg = format!("index rose by {}e-18 over a total balance of {} (= {}e-18 reward) but only {} reward coins reached the contract since the previous distribution", delta, pre.state.total_balance, grow18, m.undistributed);
            viol(out, "C15", "accrual_bounded_by_rewards_delivered", ctx.idx, "reward.UpdateGlobalIndex:over_distribution", msg.clone());
            if ctx.out.map(|o| o.calls.iter().any(|c| c.ok && c.is_exec(HUB, "update_global_index"))).unwrap_or(false) {
                viol(out, "C19", "holders_accrual_grows_by_delivered", ctx.idx, "hub.UpdateGlobalIndex:over_distribution", msg);
            }
        }
        // ... and not less: what reached the contract is shared out in full over the tokens
        // that exist (the holders' actual balances, not the contract's own total), up to the
        // index's 1e-18 resolution per token and one base unit
        let held: u128 = pre.holders.iter().map(|h| h.balance.u128()).sum();
        let grow_actual18 = Uint256::from(delta) * Uint256::from(held);
        let slack18 = Uint256::from(held) + one256();
        if grow_actual18 + slack18 < have18 {
            stats.check("c15_distribution_complete");
            viol(out, "C15", "accrual_equals_rewards_delivered_per_token", ctx.idx, "reward.UpdateGlobalIndex:under_distribution", format!("{} reward coins reached the contract since the previous distribution, holders own {} bSei (contract total {}), but the index rose by only {}e-18: {}e-18 credited", m.undistributed, held, pre.state.total_balance, delta, grow_actual18));
        }
        m.undistributed = 0;
        for h in &pre.holders {
            if !h.balance.is_zero() {
                *m.accr.entry(h.address.clone()).or_insert_with(Uint256::zero) += Uint256::from(delta) * Uint256::from(h.balance.u128());
            }
        }
    } else if !pre.state.total_balance.is_zero() && ctx.out.map(|o| o.ok && o.calls.iter().any(|c| c.ok && c.is_exec(REWARD, "update_global_index"))).unwrap_or(false) {
        // an update with holders that could not move the index (reward dust over a large
        // supply): the contract counts it as distributed
        m.undistributed = 0;
    }
    // ---- claims
    let is_claim = matches!(ctx.top(), Some((REWARD, "claim_rewards")));
    if is_claim {
        let signer = ctx.tx.map(|t| t.sender.clone()).unwrap_or_default();
        let n = pre.accrued.get(&signer).copied().unwrap_or(0);
        let recipient = ctx.tx.and_then(|t| t.msg.get("claim_rewards").and_then(|b| b.get("recipient")).and_then(|r| r.as_str()).map(|s| s.to_string())).unwrap_or_else(|| signer.clone());
        if ctx.committed() {
            stats.check("c14_claim_committed");
            if paid.is_empty() || paid.iter().any(|x| x.0 != recipient) || paid_sum != n || n == 0 {
                viol(out, "C14", "claim_pays_exactly_whole_units", ctx.idx, "reward.ClaimRewards:payout", format!("{} had {} claimable, recipient {}; transfers: {:?}", signer, n, recipient, paid));
            }
            m.claimed += paid_sum;
            let e = m.accr.entry(signer.clone()).or_insert_with(Uint256::zero);
            let sub = Uint256::from(paid_sum) * one256();
            if *e >= sub {
                *e -= sub;
            } else {
                viol(out, "C15", "claim_within_ledger_accrual", ctx.idx, "reward.ClaimRewards:over_ledger", format!("{} was paid {} but the ledger accrual is {}e-18", signer, paid_sum, e));
                *e = Uint256::zero();
            }
            if let Some(h) = post.holders.iter().find(|h| h.address == signer) {
                if atomics(h.pending_rewards) >= ONE {
                    viol(out, "C14", "claim_keeps_only_fraction", ctx.idx, "reward.ClaimRewards:fraction", format!("{} still has pending {} after the claim", signer, h.pending_rewards));
                }
            }
        } else if !ctx.abort_injected && !ctx.out.map(|o| o.err_kind == Some(ErrKind::Chain) && o.err_at == Some(0)).unwrap_or(false) {
            // whole units accrued according to the ledger (balance x delivered per bSei, fed from
            // index rises and payouts): does not depend on the AccruedRewards answer
            let nl: u128 = m.accr.get(&signer).map(|e| (*e / one256()).to_string().parse::<u128>().unwrap_or(u128::MAX)).unwrap_or(0);
            if n >= 1 || nl >= 1 {
                let n = n.max(nl);
                let why = ctx.out.and_then(|o| o.err.clone()).unwrap_or_default();
                // a recipient the chain's address validation rejects is a legitimate failure
                if !why.contains("address") && !why.contains("Invalid input") {
                    viol(out, "C14", "claim_of_accrued_rewards_succeeds", ctx.idx, "reward.ClaimRewards:must_succeed", format!("{} has {} claimable but ClaimRewards failed: {}", signer, n, why));
                }
            } else {
                stats.probe("c14_claim_of_zero_rejected");
            }
        }
        if ctx.committed() && n == 0 {
            viol(out, "C14", "claim_of_zero_fails", ctx.idx, "reward.ClaimRewards:zero", format!("{} claimed with nothing accrued and it committed", signer));
        }
    } else if paid_sum > 0 {
        viol(out, "C14", "reward_coins_leave_only_by_claims", ctx.idx, "reward:payout_outside_claim", format!("reward contract paid {:?} in {:?}", paid, ctx.top()));
    }
    // ---- C15: every holder's exact accrual equals the ledger (balance x delivered-per-bSei)
    stats.check("c15_ledger_compare");
    let mut seen: BTreeSet<&str> = BTreeSet::new();
    for h in &post.holders {
        seen.insert(h.address.as_str());
        let ex = exact_accrued(h, g1);
        let led = m.accr.get(&h.address).copied().unwrap_or_else(Uint256::zero);
        if ex != led {
            viol(out, "C15", "accrual_equals_balance_times_index_delta", ctx.idx, "reward.Holder:accrual_mismatch", format!("{}: contract says {}e-18 accrued, balance x per-token rewards since joining gives {}e-18 (step {:?})", h.address, ex, led, ctx.top()));
            break;
        }
        let int_part = ex / one256();
        let rep = post.accrued.get(&h.address).copied().unwrap_or(0);
        if int_part != Uint256::from(rep) {
            viol(out, "C15", "accrued_query_is_floor_of_exact", ctx.idx, "reward.AccruedRewards:floor", format!("{}: AccruedRewards {} but exact accrual {}e-18", h.address, rep, ex));
        }
    }
    for (a, v) in &m.accr {
        if !v.is_zero() && !seen.contains(a.as_str()) {
            viol(out, "C15", "accrued_rewards_stay_with_holder", ctx.idx, "reward.Holder:lost", format!("{} accrued {}e-18 by the ledger but has no holder record", a, v));
        }
    }
    // ---- C14: solvency and completeness
    stats.check("c14_solvency");
    let prev = post.state.prev_reward_balance.u128();
    let sum_int: u128 = post.accrued.values().sum();
    if sum_int > prev {
        viol(out, "C14", "claimable_le_recorded_balance", ctx.idx, "reward:claimable_exceeds_recorded", format!("holders can claim {} but recorded reward balance is {}", sum_int, prev));
    }
    if prev > bank_post {
        viol(out, "C14", "recorded_le_actual_balance", ctx.idx, "reward:recorded_exceeds_bank", format!("recorded reward balance {} but the contract holds {}", prev, bank_post));
    }
    let sum_ex = sum_exact(post);
    let prev18 = Uint256::from(prev) * one256();
    if sum_ex > prev18 {
        viol(out, "C14", "accrued_le_recorded_balance_exact", ctx.idx, "reward:exact_exceeds_recorded", format!("exact accrued {}e-18 > recorded {}", sum_ex, prev));
    } else {
        let dust = prev18 - sum_ex;
        let bound = Uint256::from(m.index_updates as u128 + m.holders_seen.len() as u128 + 1) * one256();
        if dust > bound {
            viol(out, "C14", "nothing_stranded_beyond_dust", ctx.idx, "reward:stranded", format!("recorded {} minus exact accrued leaves {}e-18 stranded after {} updates / {} holders", prev, dust, m.index_updates, m.holders_seen.len()));
        }
    }
    if m.claimed > m.delivered {
        viol(out, "C14", "claimed_le_delivered", ctx.idx, "reward:claimed_exceeds_delivered", format!("claimed {} > delivered {}", m.claimed, m.delivered));
    }
}

// ======================================================================= C16

pub fn c16_mirror(_m: &mut Mon, ctx: &StepCtx, stats: &mut Stats, out: &mut Vec<Violation>) {
    let (r, t) = match (&ctx.post.reward, ctx.post.t(Tok::B)) {
        (Some(a), Some(b)) => (a, b),
        _ => return,
    };
    stats.check("c16_mirror");
    if r.state.total_balance.u128() != t.supply {
        viol(out, "C16", "reward_total_equals_supply", ctx.idx, "reward.State:total_balance", format!("reward total_balance {} vs bSei supply {} after {:?}", r.state.total_balance, t.supply, ctx.top()));
    }
    let mut hb: BTreeMap<&str, u128> = BTreeMap::new();
    for h in &r.holders {
        hb.insert(h.address.as_str(), h.balance.u128());
    }
    let addrs: BTreeSet<&str> = hb.keys().copied().chain(t.bal.keys().map(|s| s.as_str())).collect();
    for a in addrs {
        let x = hb.get(a).copied().unwrap_or(0);
        let y = t.bal.get(a).copied().unwrap_or(0);
        if x != y {
            viol(out, "C16", "holder_balance_mirrors_token_balance", ctx.idx, "reward.Holder:balance", format!("{}: reward contract records {} bSei, token says {} (after {:?})", a, x, y, ctx.top()));
            break;
        }
    }
}

/// The reward contract's two ways of reporting a holder agree: the Holders enumeration read in
/// small pages (cursor = last address of the previous page) equals the single page the
/// observation uses, and `Holder { address }` returns the enumerated record (or an empty one).
pub fn c16_queries(_m: &mut Mon, ctx: &StepCtx, stats: &mut Stats, out: &mut Vec<Violation>) {
    use basset::reward::{HolderResponse, HoldersResponse, QueryMsg as RewQ};
    let r = match &ctx.post.reward {
        Some(r) => r,
        None => return,
    };
    let changed = ctx.pre.reward.as_ref().map(|p| p.holders.len() != r.holders.len()).unwrap_or(true);
    if !changed && ctx.idx % 8 != 3 {
        return;
    }
    stats.check("c16_holder_queries");
    let page = 1 + (ctx.idx as u32 % 3);
    let mut paged: Vec<HolderResponse> = vec![];
    let mut start: Option<String> = None;
    for _ in 0..(r.holders.len() + 2) {
        match crate::wasm::query_typed::<_, HoldersResponse>(ctx.post_w, REWARD, &RewQ::Holders { start_after: start.clone(), limit: Some(page) }) {
            Ok(p) => {
                if p.holders.is_empty() {
                    break;
                }
                start = p.holders.last().map(|h| h.address.clone());
                paged.extend(p.holders);
            }
            Err(e) => {
                viol(out, "C16", "holder_queries_agree", ctx.idx, "reward.Holders:failed", format!("Holders(start {:?}, limit {}) failed: {}", start, page, e));
                return;
            }
        }
    }
    if paged != r.holders {
        viol(out, "C16", "holder_queries_agree", ctx.idx, "reward.Holders:paging", format!("Holders read in pages of {} lists {:?}, in one page {:?}", page, paged.iter().map(|h| (&h.address, h.balance.u128())).collect::<Vec<_>>(), r.holders.iter().map(|h| (&h.address, h.balance.u128())).collect::<Vec<_>>()));
    }
    for a in ctx.known.iter() {
        let listed = r.holders.iter().find(|h| h.address == *a);
        match crate::wasm::query_typed::<_, HolderResponse>(ctx.post_w, REWARD, &RewQ::Holder { address: a.clone() }) {
            Ok(h) => {
                let same = match listed {
                    Some(l) => l.balance == h.balance && l.index == h.index && l.pending_rewards == h.pending_rewards,
                    None => h.balance.is_zero() && h.pending_rewards.is_zero(),
                };
                if !same {
                    viol(out, "C16", "holder_queries_agree", ctx.idx, "reward.Holder:differs_from_enumeration", format!("Holder({}) = {:?} but the enumeration has {:?}", a, h, listed));
                    break;
                }
            }
            Err(e) => {
                // an address the Api rejects (upper case ...) cannot hold tokens either
                if listed.is_some() {
                    viol(out, "C16", "holder_queries_agree", ctx.idx, "reward.Holder:failed", format!("Holder({}) failed: {}", a, e));
                    break;
                }
            }
        }
    }
}

// ======================================================================= C17

fn bal_of(c: &CallRec, denom: &str) -> u128 {
    c.bal_before.iter().filter(|b| b.0 == denom).map(|b| b.1).sum()
}

pub fn c17_dispatcher(_m: &mut Mon, ctx: &StepCtx, stats: &mut Stats, out: &mut Vec<Violation>) {
    // the fee is taken at the rate the owner configured (model fed from committed messages), not
    // at whatever a faulty update left in storage
    if let (Some(pre_d), Some(post_d)) = (&ctx.pre.dispatcher, &ctx.post.dispatcher) {
        if _m.keeper_rate_model.is_none() {
            _m.keeper_rate_model = Some(pre_d.krp_keeper_rate);
        }
        if ctx.committed() {
            if let Some((DISPATCHER, "update_config")) = ctx.top() {
                if let Some(x) = ctx.tx.and_then(|t| t.msg.get("update_config")).and_then(|b| b.get("krp_keeper_rate")).and_then(|v| v.as_str()).and_then(|s| s.parse::<cosmwasm_std::Decimal>().ok()) {
                    _m.keeper_rate_model = Some(x);
                }
            }
        }
        stats.check("c17_keeper_rate_model");
        if Some(post_d.krp_keeper_rate) != _m.keeper_rate_model {
            let msg = format!("dispatcher stores keeper rate {} but the owner's committed configuration says {:?} (after {:?})", post_d.krp_keeper_rate, _m.keeper_rate_model, ctx.top());
            viol(out, "C17", "keeper_rate_follows_configuration", ctx.idx, "dispatcher.Config:keeper_rate_model", msg.clone());
            viol(out, "C19", "keeper_fee_at_configured_rate", ctx.idx, "dispatcher.Config:keeper_rate_model", msg);
            _m.keeper_rate_model = Some(post_d.krp_keeper_rate);
        }
    }
    if let Some(d) = &ctx.post.dispatcher {
        if d.krp_keeper_rate > cosmwasm_std::Decimal::one() {
            viol(out, "C17", "keeper_rate_le_one", ctx.idx, "dispatcher.Config:keeper_rate", format!("keeper rate {}", d.krp_keeper_rate));
        }
    }
    let o = match ctx.out {
        Some(o) => o,
        None => return,
    };
    let dcfg = match &ctx.pre.dispatcher {
        Some(d) => d,
        None => return,
    };
    let (sd, bd) = (dcfg.stsei_reward_denom.clone(), dcfg.bsei_reward_denom.clone());
    // 4. no zero transfer (checked on failing transactions too: the failing record is the evidence)
    for c in &o.calls {
        if c.sender == DISPATCHER {
            if let MsgRec::BankSend { to, coins } = &c.msg {
                if coins.is_empty() || coins.iter().all(|x| x.1 == 0) {
                    let who = if *to == dcfg.krp_keeper_address { "keeper" } else if *to == dcfg.bsei_reward_contract { "reward_contract" } else { "other" };
                    let denom = coins.first().map(|c| c.0.clone()).unwrap_or_default();
                    let which = if denom == sd { "stsei_coin" } else { "bsei_coin" };
                    if atomics(dcfg.krp_keeper_rate) > 0 && atomics(dcfg.krp_keeper_rate) < ONE {
                        stats.probe("c17_dust_times_rate_below_one");
                    }
                    viol(out, "C17", "no_zero_transfer", ctx.idx, &format!("dispatcher.DispatchRewards:zero_send:to={}:{}", who, which), format!("dispatcher emitted a transfer of zero {} to {} (keeper rate {})", denom, to, dcfg.krp_keeper_rate));
                }
            }
        }
    }
    let both_ok = ctx.pre_w.ext.swap_mode == SwapMode::Ok && ctx.pre_w.ext.oracle_mode == OracleMode::Ok;
    // a failed transaction's call tree is truncated: besides the zero-transfer evidence above only
    // the offers actually dispatched (including the one that failed) are usable
    for c in &o.calls {
        if !c.ok {
            continue;
        }
        match c.exec() {
            Some((DISPATCHER, "swap_to_reward_denom", body)) => {
                stats.check("c17_swap_decision");
                let xs = bal_of(c, &sd);
                let xb = bal_of(c, &bd);
                // 1. never offers more than it holds at the moment of the offer (proceeds of the
                //    preceding conversions of extra denoms count)
                let mut running: BTreeMap<String, u128> = c.bal_before.iter().cloned().collect();
                for k in o.children(c.idx) {
                    if let MsgRec::Exec { funds, .. } = &k.msg {
                        for (d, a) in funds {
                            let have = running.get(d).copied().unwrap_or(0);
                            if *a > have {
                                viol(out, "C17", "offer_le_held", ctx.idx, "dispatcher.SwapToRewardDenom:offer_exceeds_balance", format!("offers {}{} but holds {}", a, d, have));
                            }
                            running.insert(d.clone(), have.saturating_sub(*a));
                        }
                        if k.attr("paid_to") == Some(DISPATCHER) {
                            if let (Some(pd), Some(pa)) = (k.attr("paid_denom"), k.attr("paid_amount").and_then(|x| x.parse::<u128>().ok())) {
                                *running.entry(pd.to_string()).or_insert(0) += pa;
                            }
                        }
                    }
                }
                // the rebalancing offer, read from the dispatched swap message itself (the last swap
                // whose offered coin is one of the two reward coins); no offer = nothing swapped
                let mut offer_amt = 0u128;
                let mut offer_denom = sd.clone();
                for k in o.children(c.idx) {
                    if let MsgRec::Exec { funds, .. } = &k.msg {
                        for (d, a) in funds {
                            if *d == sd || *d == bd {
                                offer_amt = *a;
                                offer_denom = d.clone();
                            }
                        }
                    }
                }
                // 2. share equation at the oracle price
                if both_ok && o.ok {
                    let bs = body.get("stsei_total_bonded").and_then(|v| v.as_str()).and_then(|s| s.parse::<u128>().ok()).unwrap_or(0);
                    let bb = body.get("bsei_total_bonded").and_then(|v| v.as_str()).and_then(|s| s.parse::<u128>().ok()).unwrap_or(0);
                    let r = ctx.pre_w.ext.oracle_rate_atomics; // bSei-coin per stSei-coin
                    // extra swap denoms are converted first and counted at the swap's simulation
                    let extra_as_b: u128 = c.bal_before.iter().filter(|b| b.0 != sd && b.0 != bd && dcfg.swap_denoms.contains(&b.0)).map(|b| crate::wasm::swap_quote(ctx.pre_w, &b.0, &bd, b.1).unwrap_or(0)).sum();
                    let xs_eff = if dcfg.swap_denoms.contains(&sd) { xs } else { 0 };
                    let xb_eff = if dcfg.swap_denoms.contains(&bd) { xb } else { 0 } + extra_as_b;
                    if bs + bb > 0 && r > 0 {
                        stats.check("c17_share_equation");
                        // everything in units of 1e-18 stSei-coin, exact: T = xs + xb/r
                        let t18 = Uint256::from(xs_eff) * one256() + Uint256::from(xb_eff) * one256() * one256() / Uint256::from(r);
                        let ideal18 = t18 * Uint256::from(bs) / Uint256::from(bs + bb);
                        let after18 = if offer_denom == sd {
                            Uint256::from(xs_eff.saturating_sub(offer_amt)) * one256()
                        } else {
                            Uint256::from(xs_eff) * one256() + Uint256::from(offer_amt) * one256() * one256() / Uint256::from(r)
                        };
                        let p_ceil = muldiv_ceil(1, ONE, r).unwrap_or(u128::MAX / 8);
                        let tol = Uint256::from(4 + p_ceil) * one256() + Uint256::from(xb_eff) * Uint256::from(p_ceil.max(1));
                        let diff = if after18 > ideal18 { after18 - ideal18 } else { ideal18 - after18 };
                        if diff > tol {
                            viol(out, "C17", "stsei_share_follows_bonded_ratio", ctx.idx, "dispatcher.SwapToRewardDenom:share", format!("holds {}{} + {}{} at {} {}/{}; bonded stSei {} bSei {}; offers {}{}: stSei side {}e-18 vs ideal {}e-18", xs, sd, xb, bd, dec(r), bd, sd, bs, bb, offer_amt, offer_denom, after18, ideal18));
                            // the same swap is the step of UpdateGlobalIndex that decides how much of the
                            // withdrawn rewards each pool receives (only the hub may request it)
                            viol(out, "C19", "rewards_split_between_pools_by_bonded_stake", ctx.idx, "hub.UpdateGlobalIndex:split", format!("update splits {}{} + {}{} between stSei bonded {} and bSei bonded {} at {} {}/{}: stSei pool keeps {}e-18 {} instead of {}e-18", xs, sd, xb, bd, bs, bb, dec(r), bd, sd, after18, sd, ideal18));
                        }
                        if xs == 0 || xb == 0 {
                            stats.probe("c17_one_sided_rewards");
                        }
                    }
                }
            }
            Some((DISPATCHER, "dispatch_rewards", _)) if o.ok => {
                stats.check("c17_dispatch");
                let rate = atomics(dcfg.krp_keeper_rate);
                let xs = bal_of(c, &sd);
                let xb = bal_of(c, &bd);
                let kids: Vec<&CallRec> = o.children(c.idx).collect();
                let mut keeper: BTreeMap<String, u128> = BTreeMap::new();
                let mut to_reward = 0u128;
                let mut rebonded = 0u128;
                let mut other = false;
                let mut idx_update_pos: Option<usize> = None;
                let mut reward_send_pos: Option<usize> = None;
                for (i, k) in kids.iter().enumerate() {
                    match &k.msg {
                        MsgRec::BankSend { to, coins } => {
                            for (d, a) in coins {
                                if *to == dcfg.krp_keeper_address {
                                    *keeper.entry(d.clone()).or_insert(0) += a;
                                } else if *to == dcfg.bsei_reward_contract && *d == bd {
                                    to_reward += a;
                                    reward_send_pos = Some(i);
                                } else {
                                    other = true;
                                }
                            }
                        }
                        MsgRec::Exec { contract, funds, .. } => {
                            if k.is_exec(&dcfg.hub_contract, "bond_rewards") {
                                rebonded += funds.iter().filter(|f| f.0 == sd).map(|f| f.1).sum::<u128>();
                                if funds.iter().any(|f| f.0 != sd) {
                                    other = true;
                                }
                            } else if k.is_exec(&dcfg.bsei_reward_contract, "update_global_index") {
                                idx_update_pos = Some(i);
                            } else {
                                let _ = contract;
                                other = true;
                            }
                        }
                        _ => other = true,
                    }
                }
                let ks = mul_rate(xs, rate).unwrap_or(0);
                let kb = mul_rate(xb, rate).unwrap_or(0);
                if xs > 0 && xb > 0 && (ks == 0 || kb == 0) && rate > 0 {
                    stats.probe("c17_dust_times_rate_below_one");
                }
                if keeper.get(&sd).copied().unwrap_or(0) != ks || keeper.get(&bd).copied().unwrap_or(0) != kb {
                    viol(out, "C17", "keeper_gets_floor_balance_times_rate", ctx.idx, "dispatcher.DispatchRewards:keeper_amount", format!("holds {}{} {}{} rate {}: keeper sent {:?}, expected {} and {}", xs, sd, xb, bd, dcfg.krp_keeper_rate, keeper, ks, kb));
                }
                if to_reward != xb - kb || rebonded != xs - ks || other {
                    viol(out, "C17", "remainder_forwarded_in_full", ctx.idx, "dispatcher.DispatchRewards:remainder", format!("holds {}{} {}{}: keeper ({},{}) reward contract {} re-bonded {} other={}", xs, sd, xb, bd, ks, kb, to_reward, rebonded, other));
                }
                match (idx_update_pos, reward_send_pos) {
                    (None, _) => viol(out, "C17", "index_update_follows_delivery", ctx.idx, "dispatcher.DispatchRewards:no_index_update", "no UpdateGlobalIndex sent to the reward contract".into()),
                    (Some(u), Some(s)) if u < s => viol(out, "C17", "index_update_follows_delivery", ctx.idx, "dispatcher.DispatchRewards:index_update_order", "UpdateGlobalIndex precedes the delivery of the bSei share".into()),
                    _ => {}
                }
            }
            _ => {}
        }
    }
    // 3. keeps nothing
    if ctx.committed() && o.calls.iter().any(|c| c.is_exec(DISPATCHER, "dispatch_rewards")) {
        stats.check("c17_keeps_nothing");
        for d in [&sd, &bd] {
            let left = ctx.post_w.balance(DISPATCHER, d);
            if left != 0 {
                viol(out, "C17", "dispatcher_keeps_nothing", ctx.idx, "dispatcher:leftover", format!("dispatcher still holds {}{} after dispatch", left, d));
            }
        }
    }
}

// ======================================================================= C19

pub fn c19_update_index(m: &mut Mon, ctx: &StepCtx, stats: &mut Stats, out: &mut Vec<Violation>) {
    let o = match ctx.out {
        Some(o) => o,
        None => return,
    };
    let (pre, post) = match (&ctx.pre.hub, &ctx.post.hub) {
        (Some(a), Some(b)) => (a, b),
        _ => return,
    };
    let top_is_update = matches!(ctx.top(), Some((HUB, "update_global_index")));
    let both_ok = ctx.pre_w.ext.swap_mode == SwapMode::Ok && ctx.pre_w.ext.oracle_mode == OracleMode::Ok;
    let signer = ctx.tx.map(|t| t.sender.clone()).unwrap_or_default();
    // 6. must succeed
    if top_is_update && !o.ok && !ctx.abort_injected && !ctx.hub_paused_pre() && both_ok && signer == pre.config.update_reward_index_addr {
        let bonded = pre.raw.as_ref().map(|r| r.total_bond_bsei_amount.u128() + r.total_bond_stsei_amount.u128()).unwrap_or(0);
        let wired = ctx.pre.dispatcher.as_ref().map(|d| d.hub_contract == HUB && d.bsei_reward_contract == REWARD && d.swap_denoms.contains(&d.stsei_reward_denom) && d.swap_denoms.contains(&d.bsei_reward_denom)).unwrap_or(false);
        let has_attach = ctx.tx.map(|t| !t.funds.is_empty()).unwrap_or(false);
        if bonded > 0 && wired && !has_attach && pre.config.reward_dispatcher_contract.as_deref() == Some(DISPATCHER) {
            stats.check("c19_must_succeed_failed");
            let failing = o.err_at.map(|i| &o.calls[i]);
            let zero_send = failing.map(|c| c.sender == DISPATCHER && matches!(&c.msg, MsgRec::BankSend { coins, .. } if coins.iter().all(|x| x.1 == 0))).unwrap_or(false);
            let sig = if zero_send { "hub.UpdateGlobalIndex:must_succeed:dispatcher_zero_send" } else { "hub.UpdateGlobalIndex:must_succeed" };
            if o.err_kind != Some(ErrKind::Harness) {
                viol(out, "C19", "update_global_index_executes_when_bonded", ctx.idx, sig, format!("UpdateGlobalIndex failed with {} booked: {}", bonded, o.err.clone().unwrap_or_default()));
            }
        }
    }
    // 6b. the same for an update triggered by the registry during validator removal / manual
    //     redelegation: if the transaction dies inside the nested UpdateGlobalIndex, the update
    //     did not execute although stake is bonded
    if !o.ok && !ctx.abort_injected && both_ok && matches!(ctx.top(), Some((REGISTRY, "remove_validator")) | Some((REGISTRY, "redelegations"))) {
        if let Some(at) = o.err_at {
            let ugi = o.calls.iter().filter(|c| c.sender == REGISTRY && c.is_exec(HUB, "update_global_index")).find(|c| at == c.idx || o.subtree(c.idx).iter().any(|k| k.idx == at));
            let bonded = pre.raw.as_ref().map(|r| r.total_bond_bsei_amount.u128() + r.total_bond_stsei_amount.u128()).unwrap_or(0);
            let wired = ctx.pre.dispatcher.as_ref().map(|d| d.hub_contract == HUB && d.bsei_reward_contract == REWARD && d.swap_denoms.contains(&d.stsei_reward_denom) && d.swap_denoms.contains(&d.bsei_reward_denom)).unwrap_or(false) && pre.config.validators_registry_contract.as_deref() == Some(REGISTRY) && pre.config.reward_dispatcher_contract.as_deref() == Some(DISPATCHER);
            if ugi.is_some() && bonded > 0 && wired && !ctx.hub_paused_pre() && o.err_kind != Some(ErrKind::Harness) {
                stats.check("c19_must_succeed_failed");
                let failing = &o.calls[at];
                let zero_send = failing.sender == DISPATCHER && matches!(&failing.msg, MsgRec::BankSend { coins, .. } if coins.iter().all(|x| x.1 == 0));
                let sig = if zero_send { "hub.UpdateGlobalIndex:must_succeed:dispatcher_zero_send" } else { "hub.UpdateGlobalIndex:must_succeed:registry_triggered" };
                viol(out, "C19", "update_global_index_executes_when_bonded", ctx.idx, sig, format!("{:?} failed inside the UpdateGlobalIndex it triggers ({} booked): {}", ctx.top(), bonded, o.err.clone().unwrap_or_default()));
            }
        }
    }
    // 6c. C17: "dispatch executes for every balance and every keeper rate": a transaction that
    //     dies inside DispatchRewards (its own handler or anything it dispatches) for a reason
    //     other than the zero-amount transfer reported by no_zero_transfer
    if !o.ok && !ctx.abort_injected && both_ok && !ctx.hub_paused_pre() && o.err_kind != Some(ErrKind::Harness) {
        if let Some(at) = o.err_at {
            let disp = o.calls.iter().filter(|c| c.sender == HUB && c.is_exec(DISPATCHER, "dispatch_rewards")).find(|c| at == c.idx || o.subtree(c.idx).iter().any(|k| k.idx == at));
            let bonded = pre.raw.as_ref().map(|r| r.total_bond_bsei_amount.u128() + r.total_bond_stsei_amount.u128()).unwrap_or(0);
            let wired = ctx.pre.dispatcher.as_ref().map(|d| d.hub_contract == HUB && d.bsei_reward_contract == REWARD && d.swap_denoms.contains(&d.stsei_reward_denom) && d.swap_denoms.contains(&d.bsei_reward_denom)).unwrap_or(false)
                && pre.config.validators_registry_contract.as_deref() == Some(REGISTRY)
                && pre.config.reward_dispatcher_contract.as_deref() == Some(DISPATCHER)
                && ctx.pre.reward.as_ref().map(|r| r.config.hub_contract == HUB).unwrap_or(false);
            if let Some(d) = disp {
                let failing = &o.calls[at];
                let zero_send = failing.sender == DISPATCHER && matches!(&failing.msg, MsgRec::BankSend { coins, .. } if coins.iter().all(|x| x.1 == 0));
                if wired && bonded > 0 && !zero_send {
                    stats.check("c17_dispatch_failed");
                    viol(out, "C17", "dispatch_executes_for_every_balance", ctx.idx, "dispatcher.DispatchRewards:must_execute", format!("DispatchRewards (dispatcher holds {:?}) failed at {:?}: {}", d.bal_before, failing.exec().map(|e| (e.0.to_string(), e.1.to_string())), o.err.clone().unwrap_or_default()));
                }
            }
        }
    }
    if !o.ok {
        return;
    }
    // every committed hub UpdateGlobalIndex (bot or registry triggered)
    for c in o.find(HUB, "update_global_index") {
        stats.check("c19_update");
        if c.sender == REGISTRY {
            stats.probe("c19_registry_triggered");
        }
        // 1. withdraw from every validator the hub delegates to at that moment
        let layout = layout_before(ctx, c.idx);
        let withdrawn: BTreeSet<String> = o.children(c.idx).filter_map(|k| if let MsgRec::WithdrawReward { validator, .. } = &k.msg { Some(validator.clone()) } else { None }).collect();
        let expect: BTreeSet<String> = layout.keys().cloned().collect();
        if withdrawn != expect {
            viol(out, "C19", "rewards_withdrawn_from_every_validator", ctx.idx, "hub.UpdateGlobalIndex:withdraw_set", format!("hub delegates to {:?} but withdrew from {:?}", expect, withdrawn));
        }
    }
    if !o.calls.iter().any(|c| c.is_exec(HUB, "update_global_index")) {
        return;
    }
    if !ctx.post_w.pending_rewards_of(HUB).is_empty() {
        viol(out, "C19", "no_pending_rewards_left", ctx.idx, "hub.UpdateGlobalIndex:pending_left", format!("pending rewards remain: {:?}", ctx.post_w.pending_rewards_of(HUB)));
    }
    let (ps, qs) = match (&pre.state, &post.state) {
        (Some(a), Some(b)) => (a, b),
        _ => return,
    };
    let rebonded: u128 = o.find(HUB, "bond_rewards").map(|c| c.funds_of(DENOM)).sum();
    let d_pre = ctx.pre_w.total_delegated(HUB);
    let d_post = ctx.post_w.total_delegated(HUB);
    // 3. stSei side
    if d_post != d_pre + rebonded {
        viol(out, "C19", "delegated_grows_by_rebonded", ctx.idx, "hub.UpdateGlobalIndex:delegated_delta", format!("delegated {} -> {} with {} re-bonded", d_pre, d_post, rebonded));
    }
    if qs.total_bond_stsei_amount.u128() != ps.total_bond_stsei_amount.u128() + rebonded {
        viol(out, "C19", "stsei_pool_grows_by_rebonded", ctx.idx, "hub.UpdateGlobalIndex:stsei_pool", format!("stSei pool {} -> {} with {} re-bonded", ps.total_bond_stsei_amount, qs.total_bond_stsei_amount, rebonded));
    }
    if qs.total_bond_bsei_amount != ps.total_bond_bsei_amount || qs.bsei_exchange_rate != ps.bsei_exchange_rate {
        viol(out, "C19", "bsei_pool_and_rate_untouched", ctx.idx, "hub.UpdateGlobalIndex:bsei_side", format!("bSei pool {} -> {}, rate {} -> {}", ps.total_bond_bsei_amount, qs.total_bond_bsei_amount, ps.bsei_exchange_rate, qs.bsei_exchange_rate));
    }
    for tok in [Tok::B, Tok::St] {
        if let (Some(a), Some(b)) = (ctx.pre.t(tok), ctx.post.t(tok)) {
            if a.supply != b.supply || a.bal != b.bal {
                viol(out, "C19", "token_balances_untouched", ctx.idx, "hub.UpdateGlobalIndex:tokens", format!("{:?} supply {} -> {}", tok, a.supply, b.supply));
            }
        }
    }
    if let Some(ts) = ctx.post.t(Tok::St) {
        let e = rate_of(ps.total_bond_stsei_amount.u128() + rebonded, ts.supply + post.batch.requested_stsei.u128());
        if e != Some(atomics(qs.stsei_exchange_rate)) {
            viol(out, "C19", "stsei_rate_raised_exactly", ctx.idx, "hub.UpdateGlobalIndex:stsei_rate", format!("stSei rate {} but ({}+{})/({}+{}) = {:?}", qs.stsei_exchange_rate, ps.total_bond_stsei_amount, rebonded, ts.supply, post.batch.requested_stsei, e.map(dec)));
        }
    }
    // 5. hub liquid balance, claims untouched
    let attach = ctx.tx.filter(|_| top_is_update).map(|t| t.funds.iter().filter(|c| c.denom == DENOM).map(|c| c.amount.u128()).sum::<u128>()).unwrap_or(0);
    if hub_liquid(ctx.post_w) != hub_liquid(ctx.pre_w) + attach {
        viol(out, "C19", "hub_liquid_untouched", ctx.idx, "hub.UpdateGlobalIndex:liquid", format!("hub liquid {} -> {}", hub_liquid(ctx.pre_w), hub_liquid(ctx.post_w)));
    }
    if pre.requests != post.requests || pre.history != post.history || ps.prev_hub_balance != qs.prev_hub_balance {
        viol(out, "C19", "unbonders_claims_untouched", ctx.idx, "hub.UpdateGlobalIndex:claims", "unbond requests / history / prev_hub_balance changed".into());
    }
    // 2 + 4. reward delivery accounting (only while the stubs behave as specified)
    if both_ok {
        if let (Some(d), Some(rp), Some(rq)) = (&ctx.pre.dispatcher, &ctx.pre.reward, &ctx.post.reward) {
            for den in [&d.stsei_reward_denom, &d.bsei_reward_denom] {
                if ctx.post_w.balance(DISPATCHER, den) != 0 {
                    viol(out, "C19", "no_reward_coin_left_in_dispatcher", ctx.idx, "hub.UpdateGlobalIndex:dispatcher_leftover", format!("dispatcher holds {}{}", ctx.post_w.balance(DISPATCHER, den), den));
                }
            }
            // nobody but keeper / reward contract / swap / dispatcher / hub-delegations gains or loses coins
            for (addr, _) in ctx.post_w.bank.iter().chain(ctx.pre_w.bank.iter()) {
                if [KEEPER, REWARD, SWAP, DISPATCHER, HUB].contains(&addr.as_str()) || *addr == d.krp_keeper_address || (top_is_update && *addr == signer) {
                    continue;
                }
                if ctx.pre_w.bank.get(addr) != ctx.post_w.bank.get(addr) {
                    viol(out, "C19", "rewards_reach_only_designated_parties", ctx.idx, "hub.UpdateGlobalIndex:stray_coins", format!("{}'s balances changed: {:?} -> {:?}", addr, ctx.pre_w.bank.get(addr), ctx.post_w.bank.get(addr)));
                    break;
                }
            }
            // 4. holders' total accrual grows by what the reward contract recorded as received
            let received = rq.state.prev_reward_balance.u128().saturating_sub(rp.state.prev_reward_balance.u128());
            let grow = sum_exact(rq).checked_sub(sum_exact(rp)).unwrap_or_else(|_| Uint256::zero());
            if !rp.state.total_balance.is_zero() {
                stats.check("c19_holders_accrual");
                let rec18 = Uint256::from(received) * one256();
                if grow > rec18 || rec18 - grow > one256() {
                    viol(out, "C19", "holders_accrual_grows_by_delivered", ctx.idx, "hub.UpdateGlobalIndex:holders_accrual", format!("reward contract recorded {} received, holders' exact accrual grew by {}e-18", received, grow));
                }
                let bank_gain = ctx.post_w.balance(REWARD, &d.bsei_reward_denom).saturating_sub(ctx.pre_w.balance(REWARD, &d.bsei_reward_denom));
                let carried = ctx.pre_w.balance(REWARD, &d.bsei_reward_denom).saturating_sub(rp.state.prev_reward_balance.u128());
                if rq.config.reward_denom == d.bsei_reward_denom && received != bank_gain + carried {
                    viol(out, "C19", "delivered_rewards_all_recorded", ctx.idx, "hub.UpdateGlobalIndex:recorded", format!("reward contract gained {} (+{} carried) but recorded {}", bank_gain, carried, received));
                }
            }
        }
    }
    let _ = m;
}
