//! Monitors: the oracles of the twenty properties, evaluated after every step on the
//! committed world, the recorded call tree and public query answers, plus a small
//! shadow ledger fed from call trees (never from contract state).

use crate::chain::*;
use crate::deploy::Cfg;
use crate::obs::Obs;
use crate::sim::{Stats, StepCtx, Violation};
use cosmwasm_std::Uint256;
use std::collections::{BTreeMap, BTreeSet};

pub mod hub;
pub mod misc;
pub mod pricing;
pub mod reward;

#[derive(Clone, Debug, Default)]
pub struct Mon {
    // ---- unbond ledger (C01, C07, C08)
    /// outstanding claims per (user, batch): (bSei, stSei), from accepted unbonds
    pub claims: BTreeMap<(String, u64), (u128, u128)>,
    pub paid: BTreeSet<(String, u64)>,
    /// per batch: Σ accepted unbond amounts (bSei with fee, stSei)
    pub batch_total: BTreeMap<u64, (u128, u128)>,
    /// per batch: Σ claims already paid out (token amounts)
    pub batch_paid: BTreeMap<u64, (u128, u128)>,
    /// coins that reached the hub's liquid balance since the last successful withdraw
    pub inflow: u128,
    pub inflow_donated: bool,
    pub inflow_slashed: bool,
    /// batch -> (undelegation time, Σ Undelegate amounts)
    pub undelegated: BTreeMap<u64, (u64, u128)>,
    pub released_snap: BTreeMap<u64, basset::hub::UnbondHistoryResponse>,
    pub last_processed: u64,
    /// the keeper rate the dispatcher's owner configured: instantiate value, then every committed
    /// UpdateConfig that names the field
    pub keeper_rate_model: Option<cosmwasm_std::Decimal>,
    /// validators taken out of the registry by a committed RemoveValidator and not added again
    pub removed_validators: BTreeSet<String>,
    /// the registered validator set according to the deployment and the committed AddValidator /
    /// RemoveValidator messages (independent of the registry's query answers)
    pub registry_model: Option<BTreeSet<String>>,
    /// the unbonding period in force: the instantiated value, changed only by a committed
    /// UpdateParams that names the field (E2: the chain's unbonding time equals it)
    pub unbonding_model: Option<u64>,
    pub last_undelegation_time: Option<u64>,
    pub legacy_claims: bool,
    // ---- rewards ledger (C14, C15)
    pub delivered: u128,
    /// reward coins that reached the reward contract since the last index update that had
    /// holders to distribute to (bank growth + payouts; independent of the contract's own record)
    pub undistributed: u128,
    pub claimed: u128,
    pub index_updates: u64,
    pub holders_seen: BTreeSet<String>,
    /// per holder: exact accrued reward in 1e-18 units according to the ledger
    pub accr: BTreeMap<String, Uint256>,
    // ---- configuration (C10, C20)
    pub token_addrs: (Option<String>, Option<String>),
    /// two-step ownership model per contract: (owner, pending nominee)
    pub owner_model: BTreeMap<String, (String, String)>,
    pub underlying_denom: Option<String>,
    pub stsei_reward_denom: Option<String>,
    // ---- tokens (C18)
    pub allow_model: BTreeMap<(usize, String, String), (u128, cw20::Expiration)>,
    pub allow_model_valid: bool,
    pub token_world: bool,
}

pub fn viol(out: &mut Vec<Violation>, prop: &'static str, monitor: &'static str, step: usize, sig: &str, msg: String) {
    out.push(Violation { prop, monitor, step, msg, sig: sig.to_string() });
}

impl Mon {
    pub fn new(cfg: &Cfg) -> Mon {
        Mon { allow_model_valid: true, token_world: cfg.token_world.is_some(), legacy_claims: !cfg.legacy_wait.is_empty() || cfg.legacy_bulk > 0, registry_model: if cfg.token_world.is_none() { Some((0..cfg.registered_validators).map(|i| cfg.validator_name(i)).collect()) } else { None }, ..Default::default() }
    }

    pub fn on_genesis(&mut self, cfg: &Cfg, w: &World, obs: &Obs, rejected: &[(String, String)], stats: &mut Stats, out: &mut Vec<Violation>) {
        if let Some(h) = &obs.hub {
            self.token_addrs = (h.config.bsei_token_contract.clone(), h.config.stsei_token_contract.clone());
            self.underlying_denom = Some(h.params.underlying_coin_denom.clone());
            self.last_undelegation_time = Some(w.time);
        }
        // every contract was instantiated by OWNER and nobody has been nominated yet: the model
        // starts from the instantiating account, not from what the contracts report
        self.owner_model = obs.owners.keys().map(|c| (c.clone(), (crate::chain::OWNER.to_string(), crate::chain::OWNER.to_string()))).collect();
        if let Some(d) = &obs.dispatcher {
            self.stsei_reward_denom = Some(d.stsei_reward_denom.clone());
        }
        if let Some(tw) = &cfg.token_world {
            for list in [&tw.bsei_initial, &tw.stsei_initial] {
                let mut seen = BTreeSet::new();
                if list.iter().any(|(a, _)| !seen.insert(a.to_lowercase())) {
                    stats.probe("c18_duplicate_initial_address");
                }
            }
            if !rejected.is_empty() {
                stats.probe("c18_instantiate_rejected");
            }
        }
        misc::c18_supply(self, usize::MAX, obs, stats, out);
        let _ = (cfg, rejected);
    }

    pub fn on_step(&mut self, ctx: &StepCtx, stats: &mut Stats, out: &mut Vec<Violation>) {
        if self.token_world {
            misc::c18_all(self, ctx, stats, out);
            return;
        }
        // order matters: ledger updates happen inside the property monitors that own them
        hub::c11_legacy_guard(self, ctx, stats, out);
        hub::c07_claims(self, ctx, stats, out);
        hub::c01_withdraw(self, ctx, stats, out);
        pricing::c02_books(self, ctx, stats, out);
        pricing::c03_rates(self, ctx, stats, out);
        pricing::c04_no_dilution(self, ctx, stats, out);
        pricing::c05_peg_fee(self, ctx, stats, out);
        pricing::c06_slashing(self, ctx, stats, out);
        hub::c08_lifecycle(self, ctx, stats, out);
        misc::c12_registry_model(self, ctx, stats, out);
        misc::c12_plans(self, ctx, stats, out);
        misc::c12_probe(self, ctx, stats, out);
        misc::c13_remove_validator(self, ctx, stats, out);
        misc::c13_after_removal(self, ctx, stats, out);
        reward::c14_c15_pool(self, ctx, stats, out);
        reward::c16_mirror(self, ctx, stats, out);
        reward::c16_queries(self, ctx, stats, out);
        reward::c17_dispatcher(self, ctx, stats, out);
        reward::c19_update_index(self, ctx, stats, out);
        misc::c18_all(self, ctx, stats, out);
        misc::c20_params(self, ctx, stats, out);
        misc::c10_static(self, ctx, stats, out);
    }
}

// ------------------------------------------------------------------ helpers

pub fn hub_liquid(w: &World) -> u128 {
    w.balance(HUB, DENOM)
}

/// value of a user's requests on released batches, exactly as the hub pays them
pub fn released_claim_value(reqs: &[(u64, u128, u128)], history: &[basset::hub::UnbondHistoryResponse]) -> (u128, Vec<u64>) {
    use crate::refmath::*;
    let mut total = 0u128;
    let mut batches = vec![];
    for (b, bs, st) in reqs {
        if let Some(h) = history.iter().find(|h| h.batch_id == *b) {
            if h.released {
                total += mul_rate(*st, atomics(h.stsei_withdraw_rate)).unwrap_or(0) + mul_rate(*bs, atomics(h.bsei_withdraw_rate)).unwrap_or(0);
                batches.push(*b);
            }
        }
    }
    (total, batches)
}

/// hub delegation layout at each point of a call tree: start from the pre-state and
/// apply the recorded staking messages in dispatch order.
pub fn layout_before(ctx: &StepCtx, upto_idx: usize) -> BTreeMap<String, u128> {
    use crate::wasm::MsgRec;
    let mut m: BTreeMap<String, u128> = ctx.pre_w.delegations_of(HUB).into_iter().collect();
    if let Some(out) = ctx.out {
        for c in out.calls.iter().take(upto_idx) {
            if c.sender != HUB || !c.ok {
                continue;
            }
            match &c.msg {
                MsgRec::Delegate { validator, amount } => *m.entry(validator.clone()).or_insert(0) += amount,
                MsgRec::Undelegate { validator, amount } => {
                    let e = m.entry(validator.clone()).or_insert(0);
                    *e = e.saturating_sub(*amount);
                }
                MsgRec::Redelegate { src, dst, amount } => {
                    let e = m.entry(src.clone()).or_insert(0);
                    *e = e.saturating_sub(*amount);
                    *m.entry(dst.clone()).or_insert(0) += amount;
                }
                _ => {}
            }
        }
    }
    m.retain(|_, v| *v > 0);
    m
}
