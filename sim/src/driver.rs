//! CLI driver: seeded batches of runs on all cores, known-findings matching,
//! minimisation, replay files, evidence.

use crate::deploy::Cfg;
use crate::gen::{gen_cfg, profile_for, Gen};
use crate::ops::Step;
use crate::rng::{hash_str, mix, Rng};
use crate::sim::{Sim, Stats, Violation};
use serde::{Deserialize, Serialize};
use serde_json::{json, Value};
use std::collections::{BTreeMap, BTreeSet};
use std::sync::atomic::{AtomicU64, AtomicUsize, Ordering};
use std::sync::{Arc, Mutex};
use std::time::Instant;

pub const PROPS: [&str; 20] = ["C01", "C02", "C03", "C04", "C05", "C06", "C07", "C08", "C09", "C10", "C11", "C12", "C13", "C14", "C15", "C16", "C17", "C18", "C19", "C20"];

fn verif_root() -> String {
    std::env::var("VERIF_ROOT").unwrap_or_else(|_| "/verif".to_string())
}

#[derive(Clone, Debug, Serialize, Deserialize)]
pub struct Replay {
    pub property: String,
    pub monitor: String,
    pub sig: String,
    pub base_seed: u64,
    pub run_index: u64,
    pub tier: String,
    pub cfg: Cfg,
    pub steps: Vec<Step>,
    pub expect: Value,
}

#[derive(Clone, Debug, Deserialize)]
pub struct KnownFinding {
    pub id: String,
    pub property: String,
    pub monitor: String,
    pub sig_prefix: String,
    pub what: String,
}

#[derive(Clone, Debug, Deserialize, Default)]
pub struct KnownFile {
    #[serde(default)]
    pub findings: Vec<KnownFinding>,
    #[serde(default)]
    pub fixed: Vec<Value>,
}

pub fn load_known() -> KnownFile {
    let p = std::env::var("VERIF_KNOWN").unwrap_or_else(|_| format!("{}/known_findings.json", verif_root()));
    match std::fs::read(&p) {
        Ok(b) => serde_json::from_slice(&b).unwrap_or_else(|e| {
            eprintln!("HARNESS: cannot parse {}: {}", p, e);
            std::process::exit(2)
        }),
        Err(_) => KnownFile::default(),
    }
}

pub fn match_known<'a>(k: &'a KnownFile, v: &Violation) -> Option<&'a KnownFinding> {
    k.findings.iter().find(|f| f.property == v.prop && f.monitor == v.monitor && v.sig.starts_with(&f.sig_prefix))
}

pub struct RunResult {
    pub index: u64,
    pub seed: u64,
    pub cfg: Cfg,
    pub steps: Vec<Step>,
    pub violations: Vec<Violation>,
    pub stats: Stats,
    pub harness_error: Option<String>,
    pub fault_free: bool,
}

pub fn run_seed(prop: &str, base_seed: u64, tier: &str, index: u64) -> u64 {
    mix(&[base_seed, hash_str(prop), hash_str(tier), index])
}

/// One simulated run: a pure function of (property, seed, code).
pub fn run_one(prop: &str, base_seed: u64, tier: &str, index: u64, known: &KnownFile, log: bool) -> RunResult {
    let seed = run_seed(prop, base_seed, tier, index);
    let fault_free = index % 5 == 0;
    let mut profile = profile_for(prop);
    profile.deep = tier == "thorough" && index % 3 == 1;
    let mut rng = Rng::new(seed);
    let cfg = gen_cfg(&mut rng, &profile, fault_free);
    let mut steps: Vec<Step> = vec![];
    let active = if std::env::var("VERIF_ALL").is_ok() { None } else { Some(prop.to_string()) };
    let mut sim = match Sim::new(&cfg, active) {
        Ok(s) => s,
        Err(e) => {
            // an implementation may reject an out-of-range threshold at instantiate instead of
            // clamping it: such a deployment simply does not exist (no run, no verdict)
            // ... or be stricter about which parameter combinations it accepts: no property says
            // which instantiate messages must be accepted. The check reports a harness error if
            // more than half of its deployments are refused (see `check`).
            if e.contains(" instantiate: ") {
                let mut st = Stats::default();
                st.probe("deployment_rejected_at_instantiate");
                return RunResult { index, seed, cfg, steps, violations: vec![], stats: st, harness_error: None, fault_free };
            }
            return RunResult { index, seed, cfg, steps, violations: vec![], stats: Stats::default(), harness_error: Some(format!("genesis: {}", e)), fault_free };
        }
    };
    if log {
        sim.log = Some(vec![]);
    }
    let mut g = Gen::new(rng.next_u64(), profile, fault_free);
    let mut guard = 0;
    'outer: while !g.done() && guard < 2000 {
        guard += 1;
        let block = g.next_block(&sim);
        for st in block {
            sim.apply(&st);
            steps.push(st);
            if sim.harness_error.is_some() {
                break 'outer;
            }
            // stop at the first violation that is not a listed known finding
            if sim.violations.iter().any(|v| match_known(known, v).is_none()) {
                break 'outer;
            }
        }
    }
    if let Some(l) = &sim.log {
        for line in l {
            println!("{}", line);
        }
    }
    RunResult { index, seed, cfg, steps, violations: sim.violations.clone(), stats: sim.stats.clone(), harness_error: sim.harness_error.clone(), fault_free }
}

/// Re-execute an explicit trace (no PRNG involved).
pub fn replay_steps(cfg: &Cfg, steps: &[Step], prop: Option<&str>, log: bool) -> (Vec<Violation>, Option<String>, Stats, Vec<String>) {
    let mut sim = match Sim::new(cfg, prop.map(|s| s.to_string())) {
        Ok(s) => s,
        Err(e) => return (vec![], Some(format!("genesis: {}", e)), Stats::default(), vec![]),
    };
    if log {
        sim.log = Some(vec![]);
    }
    for st in steps {
        sim.apply(st);
        if sim.harness_error.is_some() {
            break;
        }
    }
    (sim.violations.clone(), sim.harness_error.clone(), sim.stats.clone(), sim.log.clone().unwrap_or_default())
}

fn still_fails(cfg: &Cfg, steps: &[Step], prop: &str, monitor: &str, sig: &str) -> bool {
    let (vs, he, _, _) = replay_steps(cfg, steps, Some(prop), false);
    he.is_none() && vs.iter().any(|v| v.prop == prop && v.monitor == monitor && v.sig == sig)
}

/// Greedy trace reduction keyed on (property, monitor, signature).
pub fn minimise(cfg: &Cfg, steps: &[Step], prop: &str, monitor: &str, sig: &str, budget: usize) -> (Cfg, Vec<Step>) {
    let mut cur: Vec<Step> = steps.to_vec();
    let mut used = 0usize;
    // cut the tail after the violating step
    {
        let (vs, _, _, _) = replay_steps(cfg, &cur, Some(prop), false);
        if let Some(v) = vs.iter().find(|v| v.prop == prop && v.monitor == monitor && v.sig == sig) {
            cur.truncate((v.step + 1).min(cur.len()));
        }
    }
    let mut chunk = (cur.len() / 2).max(1);
    while used < budget {
        let mut removed_any = false;
        let mut i = 0;
        while i < cur.len() && used < budget {
            let end = (i + chunk).min(cur.len());
            let mut cand = cur.clone();
            cand.drain(i..end);
            used += 1;
            if still_fails(cfg, &cand, prop, monitor, sig) {
                cur = cand;
                removed_any = true;
            } else {
                i = end;
            }
        }
        if chunk == 1 && !removed_any {
            break;
        }
        if !removed_any {
            chunk = (chunk / 2).max(1);
        }
    }
    // shrink time jumps and amounts
    let mut changed = true;
    while changed && used < budget {
        changed = false;
        for i in 0..cur.len() {
            if used >= budget {
                break;
            }
            let mut cands: Vec<Step> = vec![];
            match &cur[i] {
                Step::Block { dt } if *dt > 1 => {
                    cands.push(Step::Block { dt: dt / 2 });
                    cands.push(Step::Block { dt: 1 });
                }
                Step::Tx { op, abort_at, via } => {
                    let mut v = serde_json::to_value(op).unwrap();
                    if shrink_amount(&mut v) {
                        if let Ok(op2) = serde_json::from_value(v) {
                            cands.push(Step::Tx { op: op2, abort_at: *abort_at, via: via.clone() });
                        }
                    }
                }
                _ => {}
            }
            for c in cands {
                let mut cand = cur.clone();
                cand[i] = c;
                used += 1;
                if still_fails(cfg, &cand, prop, monitor, sig) {
                    cur = cand;
                    changed = true;
                    break;
                }
            }
        }
    }
    // simplify the deployment
    let mut c2 = cfg.clone();
    for f in 0..4 {
        let mut cand = c2.clone();
        match f {
            0 => cand.reverse_delegation_order = false,
            1 => cand.swap_extra_round_down = false,
            2 => cand.swap_slip_ppm = 0,
            _ => {
                if cand.chain_validators > cand.registered_validators {
                    cand.chain_validators = cand.registered_validators
                }
            }
        }
        if cand != c2 && still_fails(&cand, &cur, prop, monitor, sig) {
            c2 = cand;
        }
    }
    (c2, cur)
}

fn shrink_amount(v: &mut Value) -> bool {
    // halve the first "amount" field found that is > 1
    match v {
        Value::Object(m) => {
            for (k, x) in m.iter_mut() {
                if k == "amount" {
                    if let Some(s) = x.as_str() {
                        if let Ok(a) = s.parse::<u128>() {
                            if a > 1 {
                                *x = Value::String((a / 2).to_string());
                                return true;
                            }
                        }
                    }
                } else if shrink_amount(x) {
                    return true;
                }
            }
            false
        }
        _ => false,
    }
}

fn tier_runs(prop: &str, tier: &str) -> u64 {
    if let Ok(v) = std::env::var("VERIF_RUNS") {
        if let Ok(n) = v.parse::<u64>() {
            return n;
        }
    }
    let heavy = matches!(prop, "C09" | "C10" | "C11");
    match (tier, heavy) {
        ("quick", false) => 1600,
        ("quick", true) => 480,
        (_, false) => 120_000,
        (_, true) => 24_000,
    }
}

pub fn components() -> Value {
    json!({
        "real_code": ["basset-sei-hub", "basset-sei-reward", "basset-sei-rewards-dispatcher", "basset-sei-validators-registry", "basset-sei-token-bsei (cw20-legacy)", "basset-sei-token-stsei (cw20-base 0.16)", "basset", "cosmwasm-bignumber", "signed_integer", "JSON message encoding between contracts", "cosmwasm-storage / cw-storage-plus key layout"],
        "stubs": ["Api (cosmwasm_std MockApi)", "wasm module (dispatch, atomic commit, no gas except injected aborts)", "bank", "staking (tokens not shares)", "distribution", "swap contract (constant price)", "oracle contract", "airdrop registry / sink"]
    })
}

struct Shared {
    next: AtomicU64,
    results: Mutex<Vec<RunResult>>,
    current: Vec<(AtomicU64, AtomicU64)>, // per worker: (run index + 1, start millis)
    stop: AtomicUsize,
}

pub fn check(prop: &str, tier: &str) -> i32 {
    let t0 = Instant::now();
    let base_seed: u64 = std::env::var("VERIF_SEED").ok().and_then(|s| s.parse().ok()).unwrap_or(1);
    let runs = tier_runs(prop, tier);
    let wall_cap_s: u64 = std::env::var("VERIF_WALL_S").ok().and_then(|s| s.parse().ok()).unwrap_or(if tier == "quick" { 150 } else { 780 });
    let known = Arc::new(load_known());
    let workers: usize = std::env::var("VERIF_WORKERS").ok().and_then(|s| s.parse().ok()).unwrap_or(16);
    let shared = Arc::new(Shared { next: AtomicU64::new(0), results: Mutex::new(vec![]), current: (0..workers).map(|_| (AtomicU64::new(0), AtomicU64::new(0))).collect(), stop: AtomicUsize::new(0) });
    println!("check property={} tier={} base_seed={} runs<={} workers={}", prop, tier, base_seed, runs, workers);
    let mut handles = vec![];
    for wi in 0..workers {
        let sh = shared.clone();
        let kn = known.clone();
        let prop = prop.to_string();
        let tier = tier.to_string();
        let t0c = t0;
        handles.push(std::thread::spawn(move || loop {
            if sh.stop.load(Ordering::SeqCst) != 0 {
                break;
            }
            let i = sh.next.fetch_add(1, Ordering::SeqCst);
            if i >= runs {
                break;
            }
            sh.current[wi].1.store(t0c.elapsed().as_millis() as u64, Ordering::SeqCst);
            sh.current[wi].0.store(i + 1, Ordering::SeqCst);
            let r = run_one(&prop, base_seed, &tier, i, &kn, false);
            sh.current[wi].0.store(0, Ordering::SeqCst);
            let bad = r.harness_error.is_some() || r.violations.iter().any(|v| match_known(&kn, v).is_none());
            sh.results.lock().unwrap().push(r);
            if bad {
                sh.stop.store(1, Ordering::SeqCst);
            }
        }));
    }
    // watchdog: wall-clock cap for the batch, hang detection per run
    let hang_ms: u64 = 300_000; // wall clock; two orders of magnitude above the slowest deep run on a loaded machine
    loop {
        std::thread::sleep(std::time::Duration::from_millis(50));
        let now = t0.elapsed().as_millis() as u64;
        if handles.iter().all(|h| h.is_finished()) {
            break;
        }
        if now / 1000 >= wall_cap_s {
            shared.stop.store(2, Ordering::SeqCst);
        }
        for (wi, c) in shared.current.iter().enumerate() {
            let idx = c.0.load(Ordering::SeqCst);
            if idx > 0 && now.saturating_sub(c.1.load(Ordering::SeqCst)) > hang_ms {
                let i = idx - 1;
                println!("run {} (seed {}) on worker {} exceeded {} ms: reported as a hang", i, run_seed(prop, base_seed, tier, i), wi, hang_ms);
                let path = format!("{}/replays/{}-hang-{}.json", verif_root(), prop, i);
                let _ = std::fs::create_dir_all(format!("{}/replays", verif_root()));
                let _ = std::fs::write(&path, serde_json::to_vec_pretty(&json!({"property": prop, "monitor": "hang", "base_seed": base_seed, "run_index": i, "tier": tier, "note": "re-run with `simchain run <prop> <tier> <index>`"})).unwrap());
                println!("VIOLATION property={} replay={}", prop, path);
                std::process::exit(1);
            }
        }
    }
    for h in handles {
        let _ = h.join();
    }
    let mut results = std::mem::take(&mut *shared.results.lock().unwrap());
    results.sort_by_key(|r| r.index);
    // merge in index order: worker count cannot influence the outcome of any run
    let refused = results.iter().filter(|r| r.stats.probes.get("deployment_rejected_at_instantiate").copied().unwrap_or(0) > 0).count();
    if !results.is_empty() && refused * 2 > results.len() {
        eprintln!("HARNESS ERROR: {} of {} generated deployments were refused at instantiate", refused, results.len());
        return 2;
    }
    if let Some(r) = results.iter().find(|r| r.harness_error.is_some()) {
        eprintln!("HARNESS ERROR in run {} (seed {}): {}", r.index, r.seed, r.harness_error.clone().unwrap());
        return 2;
    }
    let mut total = Stats::default();
    let mut known_seen: BTreeMap<String, (String, u64)> = BTreeMap::new();
    let mut unknown: Option<(usize, Violation)> = None;
    let mut nontrivial_sigs: BTreeSet<u64> = BTreeSet::new();
    let mut nontrivial_runs = 0u64;
    let focus = format!("{}_", prop.to_lowercase());
    let mut fault_free_runs = 0u64;
    let mut steered = 0u64;
    for (ri, r) in results.iter().enumerate() {
        total.merge(&r.stats);
        if r.fault_free {
            fault_free_runs += 1;
        }
        let nt = r.stats.checks.iter().any(|(k, v)| k.starts_with(&focus) && *v > 0);
        if nt {
            nontrivial_runs += 1;
            nontrivial_sigs.extend(r.stats.sigs.iter().cloned());
        }
        let mut hit_known = false;
        let mut ids_this_run: BTreeSet<String> = BTreeSet::new();
        for v in &r.violations {
            match match_known(&known, v) {
                Some(f) => {
                    hit_known = true;
                    if ids_this_run.insert(f.id.clone()) {
                        let e = known_seen.entry(f.id.clone()).or_insert((f.what.clone(), 0));
                        e.1 += 1;
                    }
                }
                None => {
                    if unknown.is_none() {
                        unknown = Some((ri, v.clone()));
                    }
                }
            }
        }
        if !hit_known {
            steered += 1;
        }
    }
    let wall = t0.elapsed().as_secs_f64();
    let mut exit = 0;
    let mut violation_count = 0;
    if let Some((ri, v)) = &unknown {
        violation_count = 1;
        let r = &results[*ri];
        println!("violation in run {} (seed {}) step {}: [{}::{}] {}", r.index, r.seed, v.step, v.prop, v.monitor, v.msg);
        let (mcfg, msteps) = minimise(&r.cfg, &r.steps, v.prop, v.monitor, &v.sig, 600);
        let (vs, _, _, _) = replay_steps(&mcfg, &msteps, Some(prop), false);
        let mv = vs.iter().find(|x| x.prop == v.prop && x.monitor == v.monitor && x.sig == v.sig).cloned();
        let (fcfg, fsteps, fv) = match mv {
            Some(mv) => (mcfg, msteps, mv),
            None => (r.cfg.clone(), r.steps.clone(), v.clone()),
        };
        let rp = Replay { property: prop.to_string(), monitor: fv.monitor.to_string(), sig: fv.sig.clone(), base_seed, run_index: r.index, tier: tier.to_string(), cfg: fcfg, steps: fsteps, expect: json!({"step": fv.step, "message": fv.msg}) };
        let dir = format!("{}/replays", verif_root());
        let _ = std::fs::create_dir_all(&dir);
        let path = format!("{}/{}-{}.json", dir, prop, r.seed);
        std::fs::write(&path, serde_json::to_vec_pretty(&rp).unwrap()).expect("write replay");
        // confirm in a fresh process
        let exe = std::env::current_exe().unwrap();
        let st = std::process::Command::new(exe).arg("replay").arg(&path).arg("--quiet").status();
        match st.map(|s| s.code()) {
            Ok(Some(1)) => {
                println!("minimised to {} steps; replay confirmed in a fresh process", rp.steps.len());
                println!("VIOLATION property={} replay={}", prop, path);
                exit = 1;
            }
            other => {
                eprintln!("HARNESS ERROR: replay of {} in a fresh process did not reproduce ({:?})", path, other);
                return 2;
            }
        }
    }
    for (id, (what, n)) in &known_seen {
        println!("KNOWN-FINDING: property={} {} [{}] (observed in {} runs)", prop, what, id, n);
    }
    // ---- evidence
    let mut samples: Vec<Value> = vec![];
    {
        let mut nts: Vec<&RunResult> = results.iter().filter(|r| r.stats.checks.iter().any(|(k, v)| k.starts_with(&focus) && *v > 0)).collect();
        nts.sort_by_key(|r| (r.steps.len(), r.index));
        let picks: Vec<usize> = if nts.is_empty() { vec![] } else { vec![0, nts.len() / 2, nts.len() - 1] };
        let mut seen = BTreeSet::new();
        for p in picks {
            if seen.insert(p) {
                let r = nts[p];
                let shown: Vec<&Step> = r.steps.iter().take(60).collect();
                samples.push(json!({"run_index": r.index, "seed": r.seed, "fault_free": r.fault_free, "config": r.cfg, "steps_total": r.steps.len(), "steps": shown}));
            }
        }
        if samples.is_empty() {
            if let Some(r) = results.first() {
                samples.push(json!({"run_index": r.index, "seed": r.seed, "config": r.cfg, "steps_total": r.steps.len(), "steps": r.steps.iter().take(60).collect::<Vec<_>>()}));
            }
        }
    }
    let expected_probes = expected_probes(prop);
    let unreached: Vec<&str> = expected_probes.iter().filter(|p| total.probes.get(*p).copied().unwrap_or(0) == 0).cloned().collect();
    let level = if prop == "C09" { "fault_enumeration" } else { "exploration" };
    let ev = json!({
        "property_id": prop,
        "tier": tier,
        "seed": base_seed,
        "level": level,
        "wall_s": wall,
        "violations": violation_count,
        "coverage": {
            "evaluations": results.len(),
            "distinct_nontrivial": nontrivial_sigs.len(),
            "rule": format!("one evaluation = one seeded simulated run (deployment + history + clock placement + fault sequence) of scenario family '{}', all derived from mix(VERIF_SEED, property, tier, run index). A run is non-trivial when at least one monitor evaluation of this property's focus ('{}*' counters under monitor_evaluations) happened in it; distinct = number of distinct abstract state signatures (rate buckets of both tokens, pools empty/non-empty, unrecognised slashing, un-released batches capped at 3, unpaid released claims, pending requests, paused, registry size, swap/oracle mode, hashed with the last three operation kinds) reached after any step of a non-trivial run.", profile_for(prop).name, focus),
            "samples": samples,
            "nontrivial_runs": nontrivial_runs,
            "fault_free_runs": fault_free_runs,
            "transactions": total.txs, "committed": total.committed, "rejected": total.rejected, "aborted_by_injection": total.aborted,
            "blocks": total.blocks, "forks": total.forks, "fork_transactions": total.fork_txs,
            "simulated_seconds": total.sim_seconds,
            "runs_per_hour": if wall > 0.0 { (results.len() as f64 / wall * 3600.0) as u64 } else { 0 },
            "deep_runs": if tier == "thorough" { results.iter().filter(|r| r.index % 3 == 1).count() } else { 0 },
            "deep_runs_rule": "thorough tier only, run index % 3 == 1: 6-16 users, 3-12 chain validators, 2-10 registered, history 3-4x longer, operation / environment weights multiplied per run by factors from {0,1,1,1,2,4} (swarm), fault rates varied",
            "seeds": {"base_seed": base_seed, "first_run_index": 0, "last_run_index": results.last().map(|r| r.index).unwrap_or(0), "derivation": "run seed = mix(base_seed, hash(property), hash(tier), run index)"},
            "fault_counts": total.faults,
            "ops_committed": total.op_committed, "ops_rejected": total.op_rejected,
            "monitor_evaluations": total.checks,
            "probes": total.probes,
            "unreached_probes": unreached,
            "components": components(),
            "known_findings_observed": known_seen.iter().map(|(k, v)| json!({"id": k, "what": v.0, "runs": v.1})).collect::<Vec<_>>(),
            "runs_not_touching_a_known_finding": steered,
            "stopped_by": match shared.stop.load(Ordering::SeqCst) { 0 => "run budget", 1 => "violation", _ => "wall-clock cap" },
        },
        "assumptions": assumptions(prop),
    });
    let edir = format!("{}/evidence", verif_root());
    let _ = std::fs::create_dir_all(&edir);
    std::fs::write(format!("{}/{}.json", edir, prop), serde_json::to_vec_pretty(&ev).unwrap()).expect("write evidence");
    println!(
        "property={} tier={} runs={} nontrivial={} distinct_states={} txs={} forks={} wall={:.1}s exit={}",
        prop,
        tier,
        results.len(),
        nontrivial_runs,
        nontrivial_sigs.len(),
        total.txs,
        total.forks,
        wall,
        exit
    );
    if !unreached.is_empty() {
        println!("note: probes not reached in this tier: {:?}", unreached);
    }
    exit
}

fn expected_probes(prop: &str) -> Vec<&'static str> {
    match prop {
        "C01" => vec!["c01_group_of_3plus_batches", "c01_surplus_or_loss_branch", "c01_slashed_unbonding_matured", "c08_release_on_exact_boundary_second"],
        "C05" => vec!["c05_fee_charging_state", "c05_gap_binding_fee", "c05_max_fee_binding"],
        "C06" => vec!["c06_loss_branch", "c06_surplus_branch", "c06_unrecognised_slashing_state"],
        "C08" => vec!["c08_undelegation_at_epoch_plus_1", "c08_release_on_exact_boundary_second", "c08_withdraw_one_second_early", "c08_unbond_exactly_on_epoch_boundary"],
        "C12" => vec!["c12_ties", "c12_validator_with_zero_delegation"],
        "C13" => vec!["c13_removal_with_blocked_redelegation", "c13_removal_with_pending_rewards", "c13_last_validator_removal_refused"],
        "C14" => vec!["c14_claim_of_zero_rejected"],
        "C17" => vec!["c17_one_sided_rewards", "c17_dust_times_rate_below_one"],
        "C18" => vec!["c18_allowance_expired_at_use", "c18_duplicate_initial_address"],
        "C19" => vec!["c19_registry_triggered"],
        _ => vec![],
    }
}

fn assumptions(prop: &str) -> Vec<String> {
    let mut v = vec![
        "operating envelope of DESIGN.md section 4 (E1 magnitudes <= 1e18, E2 chain unbonding time = hub unbonding_period with maturity credited at block start, E3 trusted owner wiring, E4 total stake never slashed to zero, E6 chain faults in scope)".to_string(),
        "chain fidelity is that of the simulator's bank/staking/distribution/wasm stubs (tokens not shares, no gas, no unbonding-entry limit)".to_string(),
        "a clean batch is evidence for the sampled (deployment, history, clock, fault) points, not a proof".to_string(),
    ];
    if matches!(prop, "C17" | "C19" | "C09") {
        v.push("swap and oracle are stub contracts with enumerated behaviours (E5); equations that depend on them are asserted only in mode ok/ok".to_string());
    }
    if prop == "C12" {
        v.push("decided on the inputs the live system presents to calculate_delegations / calculate_undelegations (in situ) plus direct probes of both functions at every reached delegation layout with boundary amounts (0, 1, n-1, n, total-n, total-(n-1), total-1, total, total+1, three derived ones) in ascending, descending and one rotated order; no stand-alone layout generator".to_string());
    }
    v
}

pub fn replay_cmd(path: &str, quiet: bool) -> i32 {
    let bytes = match std::fs::read(path) {
        Ok(b) => b,
        Err(e) => {
            eprintln!("HARNESS: cannot read {}: {}", path, e);
            return 2;
        }
    };
    let rp: Replay = match serde_json::from_slice(&bytes) {
        Ok(r) => r,
        Err(e) => {
            eprintln!("HARNESS: cannot parse {}: {}", path, e);
            return 2;
        }
    };
    let (vs, he, _, log) = replay_steps(&rp.cfg, &rp.steps, Some(&rp.property), !quiet);
    if !quiet {
        for l in &log {
            println!("{}", l);
        }
    }
    if let Some(e) = he {
        eprintln!("HARNESS ERROR during replay: {}", e);
        return 2;
    }
    match vs.iter().find(|v| v.prop == rp.property && v.monitor == rp.monitor && v.sig == rp.sig) {
        Some(v) => {
            if !quiet {
                println!("reproduced at step {}: [{}::{}] {}", v.step, v.prop, v.monitor, v.msg);
                println!("VIOLATION property={} replay={}", rp.property, path);
            }
            1
        }
        None => {
            eprintln!("replay did not reproduce {}::{} ({}); other violations seen: {:?}", rp.property, rp.monitor, rp.sig, vs.iter().map(|v| (v.prop, v.monitor)).collect::<Vec<_>>());
            2
        }
    }
}

/// Determinism self-test: every seed is run twice (in different threads, at different
/// worker counts) and the full event logs must be byte-identical.
pub fn selftest_determinism(n: u64) -> i32 {
    let known = Arc::new(KnownFile::default());
    let digest_of = |prop: &str, i: u64| -> u64 {
        let seed = run_seed(prop, 7, "selftest", i);
        let mut profile = profile_for(prop);
        profile.deep = i % 7 == 3; // the thorough tier's deep runs are part of the self-test
        let mut rng = Rng::new(seed);
        let cfg = gen_cfg(&mut rng, &profile, i % 5 == 0);
        let mut sim = match Sim::new(&cfg, None) {
            Ok(s) => s,
            Err(e) => return hash_str(&e),
        };
        sim.log = Some(vec![]);
        let mut g = Gen::new(rng.next_u64(), profile, i % 5 == 0);
        let mut h = 0u64;
        let mut guard = 0;
        while !g.done() && guard < 400 {
            guard += 1;
            for st in g.next_block(&sim) {
                sim.apply(&st);
                h = mix(&[h, (sim.w.digest() >> 64) as u64, sim.w.digest() as u64]);
            }
        }
        for l in sim.log.as_ref().unwrap() {
            h = mix(&[h, hash_str(l)]);
        }
        for v in &sim.violations {
            h = mix(&[h, hash_str(&v.msg), v.step as u64]);
        }
        h
    };
    let _ = known;
    let mut reference: Vec<u64> = vec![];
    for (round, workers) in [1usize, 4, 16].iter().enumerate() {
        let next = Arc::new(AtomicU64::new(0));
        let out = Arc::new(Mutex::new(vec![0u64; n as usize]));
        let mut hs = vec![];
        for _ in 0..*workers {
            let next = next.clone();
            let out = out.clone();
            hs.push(std::thread::spawn(move || loop {
                let i = next.fetch_add(1, Ordering::SeqCst);
                if i >= n {
                    break;
                }
                let prop = PROPS[(i % 20) as usize];
                let d = digest_of(prop, i);
                out.lock().unwrap()[i as usize] = d;
            }));
        }
        for h in hs {
            h.join().unwrap();
        }
        let v = out.lock().unwrap().clone();
        if round == 0 {
            reference = v;
        } else if v != reference {
            let bad: Vec<usize> = (0..n as usize).filter(|i| v[*i] != reference[*i]).take(5).collect();
            eprintln!("NON-DETERMINISM: runs {:?} differ between worker counts", bad);
            return 2;
        }
        println!("determinism: {} seeds identical at {} workers", n, workers);
    }
    0
}

pub fn main(args: &[String]) -> i32 {
    match args.get(1).map(|s| s.as_str()) {
        Some("check") => {
            let prop = args.get(2).cloned().unwrap_or_default();
            let tier = args.get(3).cloned().or_else(|| std::env::var("VERIF_TIER").ok()).unwrap_or_else(|| "quick".into());
            if !PROPS.contains(&prop.as_str()) {
                eprintln!("unknown property {}", prop);
                return 2;
            }
            check(&prop, &tier)
        }
        Some("replay") => {
            let path = args.get(2).cloned().unwrap_or_default();
            replay_cmd(&path, args.iter().any(|a| a == "--quiet"))
        }
        Some("run") => {
            // debug: simchain run <prop> <tier> <index> [--log]
            let prop = args.get(2).cloned().unwrap_or("C01".into());
            let tier = args.get(3).cloned().unwrap_or("quick".into());
            let idx: u64 = args.get(4).and_then(|s| s.parse().ok()).unwrap_or(0);
            let base_seed: u64 = std::env::var("VERIF_SEED").ok().and_then(|s| s.parse().ok()).unwrap_or(1);
            let known = load_known();
            let r = run_one(&prop, base_seed, &tier, idx, &known, args.iter().any(|a| a == "--log"));
            println!("run {} seed {} steps {} txs {} committed {} violations {} harness {:?}", idx, r.seed, r.steps.len(), r.stats.txs, r.stats.committed, r.violations.len(), r.harness_error);
            for v in &r.violations {
                println!("  step {} [{}::{}] sig={} :: {}", v.step, v.prop, v.monitor, v.sig, v.msg);
            }
            if args.iter().any(|a| a == "--stats") {
                println!("{:#?}", r.stats.checks);
                println!("{:#?}", r.stats.probes);
                println!("{:#?}", r.stats.op_committed);
                println!("{:#?}", r.stats.op_rejected);
            }
            0
        }
        Some("selftest-determinism") => {
            let n: u64 = args.get(2).and_then(|s| s.parse().ok()).unwrap_or(2000);
            selftest_determinism(n)
        }
        _ => {
            eprintln!("usage: simchain check <Cnn> <quick|thorough> | replay <file> [--quiet] | run <Cnn> <tier> <index> [--log] | selftest-determinism [n]");
            2
        }
    }
}
