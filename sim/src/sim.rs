//! A simulated run: world + observation + monitors, advanced one explicit `Step` at a
//! time. Generation (gen.rs) and replay (main.rs) both drive this same `apply`.

use crate::chain::*;
use crate::deploy::{deploy, Cfg};
use crate::monitors::Mon;
use crate::obs::{observe, Obs};
use crate::ops::*;
use crate::wasm::{run_tx, ErrKind, Tx, TxOutcome};
use std::collections::{BTreeMap, BTreeSet};

#[derive(Clone, Debug, PartialEq)]
pub struct Violation {
    pub prop: &'static str,
    pub monitor: &'static str,
    pub step: usize,
    pub msg: String,
    /// structural signature used to match known findings (call site + predicate)
    pub sig: String,
}

#[derive(Clone, Debug, Default)]
pub struct Stats {
    pub txs: u64,
    pub committed: u64,
    pub rejected: u64,
    pub aborted: u64,
    pub blocks: u64,
    pub forks: u64,
    pub fork_txs: u64,
    pub sim_seconds: u64,
    pub op_committed: BTreeMap<&'static str, u64>,
    pub op_rejected: BTreeMap<&'static str, u64>,
    pub faults: BTreeMap<String, u64>,
    pub probes: BTreeMap<&'static str, u64>,
    pub checks: BTreeMap<&'static str, u64>,
    pub sigs: BTreeSet<u64>,
}

impl Stats {
    pub fn probe(&mut self, name: &'static str) {
        *self.probes.entry(name).or_insert(0) += 1;
    }
    pub fn check(&mut self, name: &'static str) {
        *self.checks.entry(name).or_insert(0) += 1;
    }
    pub fn fault(&mut self, name: &str) {
        *self.faults.entry(name.to_string()).or_insert(0) += 1;
    }
    pub fn merge(&mut self, o: &Stats) {
        self.txs += o.txs;
        self.committed += o.committed;
        self.rejected += o.rejected;
        self.aborted += o.aborted;
        self.blocks += o.blocks;
        self.forks += o.forks;
        self.fork_txs += o.fork_txs;
        self.sim_seconds += o.sim_seconds;
        for (k, v) in &o.op_committed {
            *self.op_committed.entry(k).or_insert(0) += v;
        }
        for (k, v) in &o.op_rejected {
            *self.op_rejected.entry(k).or_insert(0) += v;
        }
        for (k, v) in &o.faults {
            *self.faults.entry(k.clone()).or_insert(0) += v;
        }
        for (k, v) in &o.probes {
            *self.probes.entry(k).or_insert(0) += v;
        }
        for (k, v) in &o.checks {
            *self.checks.entry(k).or_insert(0) += v;
        }
        self.sigs.extend(o.sigs.iter().cloned());
    }
}

/// Everything a monitor may look at for one step.
pub struct StepCtx<'a> {
    pub cfg: &'a Cfg,
    pub idx: usize,
    pub step: &'a Step,
    pub pre_w: &'a World,
    pub post_w: &'a World,
    pub pre: &'a Obs,
    pub post: &'a Obs,
    pub tx: Option<&'a Tx>,
    pub op: Option<&'a Op>,
    pub out: Option<&'a TxOutcome>,
    pub abort_injected: bool,
    /// unbonding entries credited at the start of this block (Block steps)
    pub matured: &'a [Unbonding],
    pub known: &'a BTreeSet<String>,
}

impl<'a> StepCtx<'a> {
    pub fn committed(&self) -> bool {
        self.out.map(|o| o.ok).unwrap_or(false)
    }
    pub fn hub_paused_pre(&self) -> bool {
        self.pre.hub.as_ref().map(|h| h.params.paused.unwrap_or(false)).unwrap_or(false)
    }
    /// top-level (contract, variant)
    pub fn top(&self) -> Option<(&str, &str)> {
        self.out.and_then(|o| o.calls.first()).and_then(|c| c.exec()).map(|(c, v, _)| (c, v))
    }
}

#[derive(Clone)]
pub struct Sim {
    pub cfg: Cfg,
    pub w: World,
    pub genesis_time: u64,
    pub known: BTreeSet<String>,
    pub allow_pairs: BTreeSet<(usize, String, String)>,
    pub obs: Obs,
    pub mon: Mon,
    pub stats: Stats,
    pub violations: Vec<Violation>,
    pub harness_error: Option<String>,
    pub step_idx: usize,
    pub last_ops: Vec<&'static str>,
    /// properties whose monitors are evaluated (all when empty)
    pub active: Option<String>,
    pub log: Option<Vec<String>>,
}

pub fn base_known(cfg: &Cfg) -> BTreeSet<String> {
    let mut k: BTreeSet<String> = [HUB, BSEI, STSEI, REWARD, DISPATCHER, REGISTRY, SWAP, ORACLE, AIRDROP, SINK, OWNER, KEEPER, UPDATER, INTRUDER, "owner2"]
        .iter()
        .map(|s| s.to_string())
        .collect();
    k.extend(cfg.users_list());
    k
}

impl Sim {
    pub fn new(cfg: &Cfg, active: Option<String>) -> Result<Sim, String> {
        Sim::new_staged(cfg, active, None)
    }

    /// like `new`, on a partially wired deployment (see deploy_staged)
    pub fn new_staged(cfg: &Cfg, active: Option<String>, stage: Option<u8>) -> Result<Sim, String> {
        let d = crate::deploy::deploy_staged(cfg, stage)?;
        let mut known = base_known(cfg);
        if let Some(tw) = &cfg.token_world {
            for (a, _) in tw.bsei_initial.iter().chain(tw.stsei_initial.iter()) {
                // only addresses the mock Api accepts are observable by query
                if cosmwasm_std::Api::addr_validate(&crate::wasm::api(), a).is_ok() {
                    known.insert(a.clone());
                }
            }
        }
        let allow_pairs = BTreeSet::new();
        let obs = observe(&d.w, &known, &allow_pairs);
        let mut s = Sim {
            cfg: cfg.clone(),
            genesis_time: d.w.time,
            w: d.w,
            known,
            allow_pairs,
            obs,
            mon: Mon::new(cfg),
            stats: Stats::default(),
            violations: vec![],
            harness_error: None,
            step_idx: 0,
            last_ops: vec![],
            active,
            log: None,
        };
        let rejected = d.rejected;
        s.mon.on_genesis(cfg, &s.w, &s.obs, &rejected, &mut s.stats, &mut s.violations);
        s.filter_violations();
        Ok(s)
    }

    fn filter_violations(&mut self) {
        if let Some(p) = &self.active {
            self.violations.retain(|v| v.prop == p);
        }
    }

    pub fn logln(&mut self, s: String) {
        if let Some(l) = self.log.as_mut() {
            l.push(s);
        }
    }

    fn note_addresses(&mut self, op: &Op) {
        let mut add = |s: &str| {
            if s.len() >= 3 {
                self.known.insert(s.to_string());
            }
        };
        match op {
            Op::Send { from, to, .. } | Op::Transfer { from, to, .. } => {
                add(from);
                add(to);
            }
            Op::SendFrom { spender, owner, to, .. } | Op::TransferFrom { spender, owner, to, .. } => {
                add(spender);
                add(owner);
                add(to);
            }
            Op::BurnFrom { spender, owner, .. } => {
                add(spender);
                add(owner);
            }
            Op::IncAllowance { owner, spender, .. } | Op::DecAllowance { owner, spender, .. } => {
                add(owner);
                add(spender);
            }
            Op::Claim { user, recipient } => {
                add(user);
                if let Some(r) = recipient {
                    add(r);
                }
            }
            _ => {
                let s = op.signer().to_string();
                add(&s);
            }
        }
        match op {
            Op::IncAllowance { tok, owner, spender, .. } | Op::DecAllowance { tok, owner, spender, .. } => {
                self.allow_pairs.insert((tok.idx(), owner.clone(), spender.clone()));
            }
            _ => {}
        }
    }

    /// E1 guard, evaluated against the state the transaction would execute in (a pure
    /// function of the trace, so replay skips exactly the same transactions): token
    /// supplies and pool totals stay <= 1e18.
    pub fn e1_ok(&self, op: &Op) -> bool {
        use crate::refmath::{div_rate, mul_rate};
        const CAP: u128 = 1_000_000_000_000_000_000;
        let st = match self.obs.hub.as_ref().and_then(|h| h.state.as_ref()) {
            Some(s) => s,
            None => return true,
        };
        let (rb, rs) = (st.bsei_exchange_rate.atomics().u128(), st.stsei_exchange_rate.atomics().u128());
        let booked = st.total_bond_bsei_amount.u128() + st.total_bond_stsei_amount.u128();
        let sup = |t: Tok| self.obs.t(t).map(|x| x.supply).unwrap_or(0);
        let fits = |mint: Option<u128>, t: Tok| mint.map(|m| m.saturating_add(sup(t)) <= CAP).unwrap_or(false);
        match op {
            Op::Bond { amount, .. } => fits(div_rate(amount.u128(), rb), Tok::B) && booked.saturating_add(amount.u128()) <= CAP,
            Op::BondStSei { amount, .. } => fits(div_rate(amount.u128(), rs), Tok::St) && booked.saturating_add(amount.u128()) <= CAP,
            Op::Send { tok, amount, hook: Hook::Convert, .. } | Op::SendFrom { tok, amount, hook: Hook::Convert, .. } => match tok {
                Tok::St => fits(mul_rate(amount.u128(), rs).and_then(|c| div_rate(c, rb)), Tok::B),
                Tok::B => fits(mul_rate(amount.u128(), rb).and_then(|c| div_rate(c, rs)), Tok::St),
            },
            _ => true,
        }
    }

    /// abstract state signature for the reach metric (DESIGN section 8)
    fn abstract_sig(&self) -> u64 {
        let mut parts: Vec<u64> = vec![];
        if let Some(h) = &self.obs.hub {
            if let Some(s) = &h.state {
                let one = cosmwasm_std::Decimal::one();
                let b = |d: cosmwasm_std::Decimal| if d < one { 0u64 } else if d == one { 1 } else { 2 };
                parts.push(b(s.bsei_exchange_rate));
                parts.push(b(s.stsei_exchange_rate));
                parts.push((s.total_bond_bsei_amount.is_zero() as u64) | ((s.total_bond_stsei_amount.is_zero() as u64) << 1));
                if let Some(r) = &h.raw {
                    let booked = r.total_bond_bsei_amount.u128() + r.total_bond_stsei_amount.u128();
                    parts.push((booked > self.w.total_delegated(HUB)) as u64);
                }
            }
            let unreleased = h.history.iter().filter(|x| !x.released).count().min(3) as u64;
            parts.push(unreleased);
            let released_ids: BTreeSet<u64> = h.history.iter().filter(|x| x.released).map(|x| x.batch_id).collect();
            let unpaid = h.requests.values().any(|v| v.iter().any(|r| released_ids.contains(&r.0)));
            parts.push(unpaid as u64);
            parts.push((!h.batch.requested_bsei_with_fee.is_zero() as u64) | ((!h.batch.requested_stsei.is_zero() as u64) << 1));
            parts.push(h.params.paused.unwrap_or(false) as u64);
        }
        parts.push(self.obs.registry.as_ref().map(|r| r.len() as u64).unwrap_or(9));
        parts.push(self.w.ext.swap_mode as u64 * 8 + self.w.ext.oracle_mode as u64);
        for o in self.last_ops.iter().rev().take(3) {
            parts.push(crate::rng::hash_str(o));
        }
        crate::rng::mix(&parts)
    }

    /// Apply one step. Returns the transaction outcome for Tx steps.
    pub fn apply(&mut self, step: &Step) -> Option<TxOutcome> {
        let idx = self.step_idx;
        self.step_idx += 1;
        let pre_w = self.w.clone();
        let mut matured: Vec<Unbonding> = vec![];
        let mut outcome: Option<TxOutcome> = None;
        let mut tx_store: Option<Tx> = None;
        let mut abort_injected = false;
        match step {
            Step::Block { dt } => {
                self.w.height += 1;
                self.w.time += *dt;
                self.stats.blocks += 1;
                self.stats.sim_seconds += *dt;
                matured = self.w.mature();
                self.last_ops.push("block");
            }
            Step::Env(ev) => {
                let fired = apply_env(&mut self.w, ev);
                if fired {
                    self.stats.fault(ev.name());
                }
                if let EnvEv::Donate { to, .. } = ev {
                    self.known.insert(to.clone());
                }
                self.last_ops.push(ev.name());
            }
            Step::Tx { via, .. } if via == "drop" => {
                self.stats.fault("drop");
                return None;
            }
            Step::Tx { op, .. } if !self.e1_ok(op) => {
                // E1: an operation whose result would leave the envelope is not executed
                self.stats.fault("e1_skipped");
                return None;
            }
            Step::Tx { op, abort_at, via } => {
                self.note_addresses(op);
                let tx = op.to_tx();
                let (nw, out) = run_tx(&self.w, &tx, *abort_at);
                self.stats.txs += 1;
                if !via.is_empty() {
                    self.stats.fault(via);
                }
                if out.err_kind == Some(ErrKind::Harness) {
                    self.harness_error = Some(format!("step {}: {:?}", idx, out.err));
                }
                if out.err_kind == Some(ErrKind::Aborted) {
                    abort_injected = true;
                    self.stats.aborted += 1;
                    self.stats.fault("abort_at");
                }
                match nw {
                    Some(nw) => {
                        self.w = nw;
                        self.stats.committed += 1;
                        *self.stats.op_committed.entry(op.name()).or_insert(0) += 1;
                    }
                    None => {
                        // all-or-nothing: the world must be exactly the pre-transaction world
                        if self.w.digest() != pre_w.digest() {
                            self.harness_error = Some(format!("step {}: rollback changed the world", idx));
                        }
                        self.stats.rejected += 1;
                        *self.stats.op_rejected.entry(op.name()).or_insert(0) += 1;
                    }
                }
                self.last_ops.push(op.name());
                tx_store = Some(tx);
                outcome = Some(out);
            }
            Step::Restart => {
                let d0 = self.w.digest();
                let bytes = self.w.to_bytes();
                match World::from_bytes(&bytes) {
                    Ok(w2) => {
                        if w2.digest() != d0 || w2 != self.w {
                            self.harness_error = Some(format!("step {}: restart changed the world", idx));
                        }
                        self.w = w2;
                    }
                    Err(e) => self.harness_error = Some(format!("step {}: restart failed: {}", idx, e)),
                }
                self.stats.fault("restart");
                self.last_ops.push("restart");
            }
            Step::Fork { kind, seed } => {
                self.stats.forks += 1;
                let mut vs = vec![];
                crate::forks::run_fork(self, kind, *seed, idx, &mut vs);
                self.violations.extend(vs);
                self.filter_violations();
                self.last_ops.push("fork");
                return None;
            }
        }
        let post = observe(&self.w, &self.known, &self.allow_pairs);
        if self.log.is_some() {
            let line = describe_step(idx, step, outcome.as_ref(), &self.w, &post);
            self.logln(line);
        }
        {
            let op = match step {
                Step::Tx { op, .. } => Some(op),
                _ => None,
            };
            let ctx = StepCtx {
                cfg: &self.cfg,
                idx,
                step,
                pre_w: &pre_w,
                post_w: &self.w,
                pre: &self.obs,
                post: &post,
                tx: tx_store.as_ref(),
                op,
                out: outcome.as_ref(),
                abort_injected,
                matured: &matured,
                known: &self.known,
            };
            let mut vs = vec![];
            self.mon.on_step(&ctx, &mut self.stats, &mut vs);
            self.violations.extend(vs);
        }
        self.filter_violations();
        self.obs = post;
        let sig = self.abstract_sig();
        self.stats.sigs.insert(sig);
        outcome
    }
}

pub fn apply_env(w: &mut World, ev: &EnvEv) -> bool {
    match ev {
        EnvEv::Reward { validator, denom, amount } => w.add_pending_reward(HUB, validator, denom, amount.u128()),
        EnvEv::Slash { validator, ppm, unbonding } => {
            let (a, b) = w.slash(validator, *ppm as u128, 1_000_000, *unbonding);
            a + b > 0
        }
        EnvEv::Donate { to, denom, amount } => {
            w.credit(to, denom, amount.u128());
            !amount.is_zero()
        }
        EnvEv::BlockRedelegation { validator, on } => {
            if *on {
                w.staking.redelegation_blocked.insert(validator.clone())
            } else {
                w.staking.redelegation_blocked.remove(validator)
            }
        }
        EnvEv::Jail { validator, on } => {
            if *on {
                w.staking.jailed.insert(validator.clone())
            } else {
                w.staking.jailed.remove(validator)
            }
        }
        EnvEv::NewChainValidator { name } => w.staking.validators.insert(name.clone()),
        EnvEv::SwapMode(m) => {
            let ch = w.ext.swap_mode != *m;
            w.ext.swap_mode = *m;
            ch
        }
        EnvEv::OracleMode(m) => {
            let ch = w.ext.oracle_mode != *m;
            w.ext.oracle_mode = *m;
            ch
        }
        EnvEv::OracleRate { atomics, slip_ppm } => {
            w.ext.oracle_rate_atomics = atomics.u128();
            w.ext.swap_slip_ppm = *slip_ppm;
            true
        }
    }
}

pub fn describe_step(idx: usize, step: &Step, out: Option<&TxOutcome>, w: &World, post: &Obs) -> String {
    let mut s = format!("#{:<4} t={} h={} {}", idx, w.time, w.height, serde_json::to_string(step).unwrap_or_default());
    if let Some(o) = out {
        if o.ok {
            s.push_str(&format!("\n      => committed ({} messages)", o.calls.len()));
        } else {
            s.push_str(&format!("\n      => REJECTED at call {:?}: {}", o.err_at, o.err.clone().unwrap_or_default()));
        }
        for c in &o.calls {
            s.push_str(&format!(
                "\n      {}{} {} -> {:?}{}",
                "  ".repeat(c.depth as usize),
                if c.ok { "ok " } else { "ERR" },
                c.sender,
                c.msg,
                if c.attrs.is_empty() { String::new() } else { format!(" attrs={:?}", c.attrs) }
            ));
        }
    }
    if let Some(h) = &post.hub {
        if let Some(st) = &h.state {
            s.push_str(&format!(
                "\n      hub: Bb={} Bs={} rb={} rs={} L={} D={} batch#{}(b={},st={}) hist={} lastproc={} prev_hub_bal={}",
                st.total_bond_bsei_amount,
                st.total_bond_stsei_amount,
                st.bsei_exchange_rate,
                st.stsei_exchange_rate,
                w.balance(HUB, DENOM),
                w.total_delegated(HUB),
                h.batch.id,
                h.batch.requested_bsei_with_fee,
                h.batch.requested_stsei,
                h.history.len(),
                st.last_processed_batch,
                st.prev_hub_balance
            ));
        }
    }
    if let (Some(b), Some(st)) = (post.t(Tok::B), post.t(Tok::St)) {
        s.push_str(&format!("\n      supply: bsei={} stsei={}", b.supply, st.supply));
    }
    s
}
