//! Relational and matrix checks on forks of the current world (DESIGN 5.4). A fork is
//! a child `Sim` (world, ledger and monitors cloned), so every invariant monitor stays
//! active inside the fork; fork-specific assertions come on top. Forks draw only from a
//! sub-stream derived from the recorded fork seed.

use crate::chain::*;
use crate::gen::{profile_for, Gen};
use crate::monitors::{released_claim_value, viol};
use crate::obs::Obs;
use crate::ops::*;
use crate::rng::Rng;
use crate::sim::{Sim, Stats, Violation};
use crate::wasm::{MsgRec, Tx, TxOutcome};
use serde_json::{json, Value};
use std::collections::{BTreeMap, BTreeSet};

fn child_of(sim: &Sim) -> Sim {
    let mut c = sim.clone();
    c.log = if sim.log.is_some() && std::env::var("VERIF_FORKLOG").is_ok() { Some(vec![]) } else { None };
    c.stats = Stats::default();
    c.violations.clear();
    c
}

fn absorb(sim: &mut Sim, child: Sim, idx: usize, out: &mut Vec<Violation>) {
    sim.stats.fork_txs += child.stats.txs;
    if let (Some(pl), Some(cl)) = (sim.log.as_mut(), child.log.as_ref()) {
        pl.push("   ---- fork ----".to_string());
        for l in cl {
            pl.push(format!("   | {}", l.replace('\n', "\n   | ")));
        }
    }
    for (k, v) in &child.stats.probes {
        *sim.stats.probes.entry(k).or_insert(0) += v;
    }
    for (k, v) in &child.stats.checks {
        *sim.stats.checks.entry(k).or_insert(0) += v;
    }
    if child.harness_error.is_some() && sim.harness_error.is_none() {
        sim.harness_error = child.harness_error.clone();
    }
    for mut v in child.violations {
        v.step = idx;
        v.msg = format!("[in fork] {}", v.msg);
        out.push(v);
    }
}

fn tx_step(op: Op) -> Step {
    Step::Tx { op, abort_at: None, via: String::new() }
}

pub fn run_fork(sim: &mut Sim, kind: &str, seed: u64, idx: usize, out: &mut Vec<Violation>) {
    if sim.cfg.token_world.is_some() {
        return;
    }
    let mut rng = Rng::sub(seed, crate::rng::hash_str(kind));
    match kind {
        "c01_order" => c01_order(sim, &mut rng, idx, out),
        "c09_exits" => c09_exits(sim, &mut rng, idx, out),
        "c09_faults" => c09_faults(sim, &mut rng, idx, out),
        "c10_matrix" => c10_matrix(sim, &mut rng, idx, out),
        "c11_matrix" => c11_matrix(sim, &mut rng, idx, out),
        "c11_transparency" => c11_transparency(sim, &mut rng, idx, out),
        "c15_split" => c15_split(sim, &mut rng, idx, out),
        "c15_relational" => c15_relational(sim, &mut rng, idx, out),
        "c20_instantiate" => c20_instantiate(sim, &mut rng, idx, out),
        _ => sim.harness_error = Some(format!("unknown fork kind {}", kind)),
    }
}

fn payout_of(o: &TxOutcome, to: &str) -> u128 {
    o.calls
        .iter()
        .filter(|c| c.sender == HUB)
        .filter_map(|c| if let MsgRec::BankSend { to: t, coins } = &c.msg { if t == to { Some(coins.iter().map(|x| x.1).sum::<u128>()) } else { None } } else { None })
        .sum()
}

// ----------------------------------------------------------------- C01 order

fn c01_order(sim: &mut Sim, rng: &mut Rng, idx: usize, out: &mut Vec<Violation>) {
    let h = match &sim.obs.hub {
        Some(h) => h.clone(),
        None => return,
    };
    if h.params.paused.unwrap_or(false) {
        return;
    }
    let now = sim.w.time;
    let due: BTreeSet<u64> = h.history.iter().filter(|x| x.released || x.time + h.params.unbonding_period <= now).map(|x| x.batch_id).collect();
    let mut users: Vec<String> = h.requests.iter().filter(|(_, r)| r.iter().any(|x| due.contains(&x.0))).map(|(a, _)| a.clone()).collect();
    if users.len() < 2 {
        return;
    }
    sim.stats.check("c01_order_fork");
    let mut perm2 = users.clone();
    perm2.reverse();
    if users.len() > 2 && rng.chance(1, 2) {
        rng.shuffle(&mut perm2);
    }
    let mut results: Vec<BTreeMap<String, Option<u128>>> = vec![];
    for order in [&users, &perm2] {
        let mut c = child_of(sim);
        let mut res = BTreeMap::new();
        for u in order.iter() {
            let o = c.apply(&tx_step(Op::Withdraw { user: u.clone(), attach: 0u128.into() }));
            let o = o.unwrap();
            res.insert(u.clone(), if o.ok { Some(payout_of(&o, u)) } else { None });
        }
        absorb(sim, c, idx, out);
        results.push(res);
    }
    users.sort();
    for u in &users {
        let (a, b) = (results[0].get(u).cloned().flatten(), results[1].get(u).cloned().flatten());
        // a failed withdraw (claim worth nothing) counts as a payout of zero
        if a.unwrap_or(0) != b.unwrap_or(0) {
            viol(out, "C01", "payout_independent_of_withdraw_order", idx, "hub.WithdrawUnbonded:order", format!("{} receives {:?} in one order and {:?} in another", u, a, b));
        }
    }
}

// ----------------------------------------------------------------- C09 exits

fn c09_exits(sim: &mut Sim, rng: &mut Rng, idx: usize, out: &mut Vec<Violation>) {
    let h = match &sim.obs.hub {
        Some(h) => h.clone(),
        None => return,
    };
    if h.params.paused.unwrap_or(false) || sim.w.total_delegated(HUB) == 0 {
        return;
    }
    exits_must_succeed(sim, rng, idx, out);
}

/// every holder can unbond, the request is undelegated by the first unbond after the epoch,
/// and each claim is paid once *its own* batch's unbonding period has passed — exercised with
/// two consecutive batches so that one matures while the other is still unbonding
pub fn exits_must_succeed(sim: &mut Sim, rng: &mut Rng, idx: usize, out: &mut Vec<Violation>) {
    let mut c = child_of(sim);
    c.stats.check("c09_exit_fork");
    let holders_of = |c: &Sim, tok: Tok| -> Vec<(String, u128)> { c.obs.t(tok).map(|t| t.bal.iter().filter(|(a, b)| (a.starts_with("user") || a.as_str() == INTRUDER) && **b > 0).map(|(a, b)| (a.clone(), *b)).collect()).unwrap_or_default() };
    // state predicate used to key the known finding F-e: a pool whose backing was slashed to
    // zero while its tokens / requests still exist is priced at the definitional rate 1
    let zero_backing = |c: &Sim| -> bool {
        let h = match c.obs.hub.as_ref() {
            Some(h) => h,
            None => return false,
        };
        let st = match h.state.as_ref() {
            Some(s) => s,
            None => return false,
        };
        let sb = c.obs.t(Tok::B).map(|t| t.supply).unwrap_or(0) + h.batch.requested_bsei_with_fee.u128();
        let ss = c.obs.t(Tok::St).map(|t| t.supply).unwrap_or(0) + h.batch.requested_stsei.u128();
        (st.total_bond_bsei_amount.is_zero() && sb > 0) || (st.total_bond_stsei_amount.is_zero() && ss > 0)
    };
    let unbond_round = |c: &mut Sim, rng: &mut Rng, out: &mut Vec<Violation>, allow_full: bool, label: &str| -> usize {
        let mut n = 0;
        for tok in [Tok::B, Tok::St] {
            for (u, b) in holders_of(c, tok) {
                let amt = match rng.below(4) {
                    0 if allow_full => b,
                    1 => 1,
                    2 => (b / 2).max(1),
                    _ => rng.range128(1, b),
                };
                let zb = zero_backing(c);
                let o = c.apply(&tx_step(Op::Send { tok, from: u.clone(), to: HUB.into(), amount: amt.into(), hook: Hook::Unbond })).unwrap();
                if !o.ok {
                    let sig = if zb { "hub.unbond:must_succeed:zero_backing_pool" } else { "hub.unbond:must_succeed" };
                    viol(out, "C09", "holder_can_always_unbond", idx, sig, format!("{}: {} could not unbond {} of its {} {:?}: {}", label, u, amt, b, tok, o.err.unwrap_or_default()));
                } else {
                    n += 1;
                }
            }
        }
        n
    };
    let withdraw_round = |c: &mut Sim, out: &mut Vec<Violation>, label: &str| {
        // everyone the ledger (fed from call trees) knows as a claimant tries, twice: the first
        // pass may fail for users whose turn comes before anything was released
        let claimants: BTreeSet<String> = c.mon.claims.keys().map(|k| k.0.clone()).collect();
        for _pass in 0..2 {
            for u in &claimants {
                c.apply(&tx_step(Op::Withdraw { user: u.clone(), attach: 0u128.into() }));
            }
        }
        if let Some(h) = c.obs.hub.clone() {
            let mut per_user: BTreeMap<String, Vec<(u64, u128, u128)>> = BTreeMap::new();
            for ((u, b), v) in &c.mon.claims {
                per_user.entry(u.clone()).or_default().push((*b, v.0, v.1));
            }
            for (u, rs) in per_user {
                let (v, batches) = released_claim_value(&rs, &h.history);
                if v >= 1 {
                    let o = crate::wasm::run_tx(&c.w, &Op::Withdraw { user: u.clone(), attach: 0u128.into() }.to_tx(), None).1;
                    if !o.ok {
                        viol(out, "C09", "matured_claim_is_withdrawable", idx, "hub.WithdrawUnbonded:must_succeed_in_exit", format!("{}: {} unbonded into batches {:?}, now released and worth {}, but WithdrawUnbonded fails: {}", label, u, batches, v, o.err.unwrap_or_default()));
                    }
                }
            }
        }
    };
    let hist_len = |c: &Sim| c.obs.hub.as_ref().map(|h| h.history.len()).unwrap_or(0);
    let ep = c.obs.hub.as_ref().map(|h| h.params.epoch_period).unwrap_or(0);
    let up = c.obs.hub.as_ref().map(|h| h.params.unbonding_period).unwrap_or(0);
    // round 1: requests into the open batch
    let allow_full = rng.chance(1, 3);
    let n1 = unbond_round(&mut c, rng, out, allow_full, "round 1");
    if n1 == 0 && c.mon.claims.is_empty() {
        absorb(sim, c, idx, out);
        return;
    }
    // round 2, after the epoch: the first unbond must close the batch, the others open the next
    c.apply(&Step::Block { dt: ep + 1 });
    let h0 = hist_len(&c);
    let n2 = unbond_round(&mut c, rng, out, false, "round 2 (after the epoch)");
    if n2 > 0 && hist_len(&c) != h0 + 1 {
        viol(out, "C09", "first_unbond_after_epoch_undelegates", idx, "hub.unbond:no_undelegation_after_epoch", format!("{} unbonds after the epoch period closed {} batches (expected exactly one)", n2, hist_len(&c) - h0));
    }
    let t1 = c.w.time;
    // round 3, one epoch later: closes the second batch
    c.apply(&Step::Block { dt: ep + 1 });
    let h1 = hist_len(&c);
    let mut closed2 = false;
    'outer: for tok in [Tok::St, Tok::B] {
        for (u, _) in holders_of(&c, tok) {
            let zb = zero_backing(&c);
            let o = c.apply(&tx_step(Op::Send { tok, from: u.clone(), to: HUB.into(), amount: 1u128.into(), hook: Hook::Unbond })).unwrap();
            if !o.ok {
                let sig = if zb { "hub.unbond:must_succeed:zero_backing_pool" } else { "hub.unbond:must_succeed_after_epoch" };
                viol(out, "C09", "holder_can_always_unbond", idx, sig, format!("{} could not unbond 1 {:?} after the epoch: {}", u, tok, o.err.unwrap_or_default()));
            } else {
                closed2 = true;
                if hist_len(&c) != h1 + 1 {
                    viol(out, "C09", "first_unbond_after_epoch_undelegates", idx, "hub.unbond:no_undelegation_after_epoch", "an unbond after the epoch period did not close the batch".into());
                }
                break 'outer;
            }
        }
    }
    // the first batch matures (exactly on its boundary second) while the second is still unbonding
    let now = c.w.time;
    c.apply(&Step::Block { dt: (t1 + up).saturating_sub(now) });
    withdraw_round(&mut c, out, "first batch matured");
    if closed2 {
        c.stats.probe("c09_two_batch_window");
        c.apply(&Step::Block { dt: ep + 1 + rng.range(0, 2) });
        withdraw_round(&mut c, out, "second batch matured");
    }
    absorb(sim, c, idx, out);
}

// ---------------------------------------------------------------- C09 faults

fn normalised_digest(sim: &Sim) -> u128 {
    let mut w = sim.w.clone();
    w.ext.swap_mode = SwapMode::Ok;
    w.ext.oracle_mode = OracleMode::Ok;
    w.digest()
}

fn c09_faults(sim: &mut Sim, rng: &mut Rng, idx: usize, out: &mut Vec<Violation>) {
    if sim.obs.hub.as_ref().map(|h| h.params.paused.unwrap_or(false)).unwrap_or(true) {
        return;
    }
    // a suffix of exit-type operations, generated once against the current state
    let mut g = Gen::new(rng.next_u64(), profile_for("C09"), true);
    let cats = [0usize, 1, 2, 3, 4, 5, 6, 7, 8, 12, 13];
    let mut suffix: Vec<Step> = vec![];
    {
        let mut probe = child_of(sim);
        for _ in 0..rng.range(3, 8) {
            let cat = *rng.pick(&cats);
            if let Some(op) = g.gen_op_cat(&probe, cat) {
                let st = tx_step(op);
                probe.apply(&st);
                suffix.push(st);
            }
            if rng.chance(1, 4) {
                let st = Step::Block { dt: rng.range(0, sim.cfg.epoch_period + 2) };
                probe.apply(&st);
                suffix.push(st);
            }
        }
    }
    if suffix.is_empty() {
        return;
    }
    sim.stats.check("c09_fault_fork");
    let mut reference: Option<(Vec<bool>, u128)> = None;
    // the complete list of modes, swap x oracle (first pair is ok/ok)
    for sm in SWAP_MODES {
        for om in ORACLE_MODES {
            let mut c = child_of(sim);
            c.w.ext.swap_mode = sm;
            c.w.ext.oracle_mode = om;
            let mut oks = vec![];
            for st in &suffix {
                let o = c.apply(st);
                oks.push(o.map(|o| o.ok).unwrap_or(true));
            }
            let dg = normalised_digest(&c);
            match &reference {
                None => reference = Some((oks, dg)),
                Some((r_oks, r_dg)) => {
                    if *r_oks != oks || *r_dg != dg {
                        viol(out, "C09", "exits_independent_of_swap_and_oracle", idx, "hub:exit_depends_on_reward_plumbing", format!("with swap {:?} / oracle {:?} the operations {:?} gave results {:?} (ok/ok: {:?}) or a different final state", sm, om, suffix.iter().filter_map(|s| if let Step::Tx { op, .. } = s { Some(op.name()) } else { None }).collect::<Vec<_>>(), oks, r_oks));
                    }
                }
            }
            // UpdateGlobalIndex under this fault: succeeds or leaves everything unchanged,
            // and exits still work afterwards (sampled: it is the expensive part)
            if (sm, om) != (SwapMode::Ok, OracleMode::Ok) && rng.chance(1, 6) {
                c.stats.probe("c09_update_index_under_fault");
                c.apply(&tx_step(Op::UpdateIndex { sender: UPDATER.into() }));
                if c.w.total_delegated(HUB) > 0 {
                    let mut vs = vec![];
                    exits_must_succeed(&mut c, rng, idx, &mut vs);
                    out.extend(vs);
                }
            }
            absorb(sim, c, idx, out);
        }
    }
}

// ---------------------------------------------------------------- C10 matrix

struct Case {
    contract: &'static str,
    name: &'static str,
    msg: Value,
    funds: u128,
    designated: Vec<String>,
}

fn b64(s: &str) -> String {
    cosmwasm_std::Binary::from(s.as_bytes()).to_base64()
}

fn owner_of(sim: &Sim, contract: &str) -> (String, String) {
    // (current owner, pending nominee)
    let q = |c: &str, m: Value| crate::wasm::query_json(&sim.w, c, &m).ok();
    let nominee = q(contract, json!({"new_owner": {}})).and_then(|v| v.get("new_owner").and_then(|x| x.as_str()).map(|s| s.to_string())).unwrap_or_default();
    let owner = match contract {
        HUB => sim.obs.hub.as_ref().map(|h| h.config.owner.clone()),
        DISPATCHER => sim.obs.dispatcher.as_ref().map(|d| d.owner.clone()),
        REWARD => sim.obs.reward.as_ref().map(|r| r.config.owner.clone()),
        REGISTRY => sim.obs.registry_cfg.as_ref().and_then(|c| cosmwasm_std::Api::addr_humanize(&crate::wasm::api(), &c.owner).ok()).map(|a| a.to_string()),
        _ => None,
    }
    .unwrap_or_default();
    (owner, nominee)
}

fn privileged_cases(sim: &Sim) -> Vec<Case> {
    let (ho, hn) = owner_of(sim, HUB);
    let (d_o, dn) = owner_of(sim, DISPATCHER);
    let (ro, rn) = owner_of(sim, REWARD);
    let (go, gn) = owner_of(sim, REGISTRY);
    let updater = sim.obs.hub.as_ref().map(|h| h.config.update_reward_index_addr.clone()).unwrap_or(UPDATER.into());
    // principals that exist only once the hub owner has registered them
    let hc = sim.obs.hub.as_ref().map(|h| h.config.clone());
    let opt = |x: Option<String>| -> Vec<String> { x.into_iter().collect() };
    let reg_disp = opt(hc.as_ref().and_then(|c| c.reward_dispatcher_contract.clone()));
    let reg_registry = opt(hc.as_ref().and_then(|c| c.validators_registry_contract.clone()));
    let reg_airdrop = opt(hc.as_ref().and_then(|c| c.airdrop_registry_contract.clone()));
    let reg_bsei = opt(hc.as_ref().and_then(|c| c.bsei_token_contract.clone()));
    let reg_tokens: Vec<String> = reg_bsei.iter().cloned().chain(opt(hc.as_ref().and_then(|c| c.stsei_token_contract.clone()))).collect();
    let tokens_both = if reg_tokens.len() == 2 { reg_tokens.clone() } else { vec![] };
    let ugi: Vec<String> = std::iter::once(updater.clone()).chain(reg_registry.iter().cloned()).collect();
    let paused = sim.obs.hub.as_ref().and_then(|h| h.params.paused);
    let a_val = sim.w.staking.validators.iter().next().cloned().unwrap_or("val0".into());
    let reg_val = sim.obs.registry.as_ref().and_then(|r| r.last().map(|v| v.address.clone())).unwrap_or("val0".into());
    let s = |x: &str| x.to_string();
    vec![
        Case { contract: HUB, name: "hub.update_config", msg: json!({"update_config": {"update_reward_index_addr": updater}}), funds: 0, designated: vec![ho.clone()] },
        // once set, nobody may change a token address; while unset the owner may set it
        Case { contract: HUB, name: "hub.update_config.bsei_token", msg: json!({"update_config": {"bsei_token_contract": FOREIGN_CW20}}), funds: 0, designated: if reg_bsei.is_empty() { vec![ho.clone()] } else { vec![] } },
        Case { contract: HUB, name: "hub.update_config.stsei_token", msg: json!({"update_config": {"stsei_token_contract": FOREIGN_CW20}}), funds: 0, designated: if hc.as_ref().and_then(|c| c.stsei_token_contract.clone()).is_none() { vec![ho.clone()] } else { vec![] } },
        Case { contract: HUB, name: "hub.update_params", msg: json!({"update_params": {"paused": paused}}), funds: 0, designated: vec![ho.clone()] },
        Case { contract: HUB, name: "hub.set_owner", msg: json!({"set_owner": {"new_owner_addr": hn}}), funds: 0, designated: vec![ho.clone()] },
        Case { contract: HUB, name: "hub.accept_ownership", msg: json!({"accept_ownership": {}}), funds: 0, designated: vec![hn.clone()] },
        Case { contract: HUB, name: "hub.bond_rewards", msg: json!({"bond_rewards": {}}), funds: 1000, designated: reg_disp.clone() },
        Case { contract: HUB, name: "hub.redelegate_proxy", msg: json!({"redelegate_proxy": {"src_validator": a_val, "redelegations": []}}), funds: 0, designated: reg_registry.clone() },
        Case { contract: HUB, name: "hub.update_global_index", msg: json!({"update_global_index": {}}), funds: 0, designated: ugi.clone() },
        Case { contract: HUB, name: "hub.swap_hook", msg: json!({"swap_hook": {"airdrop_token_contract": FOREIGN_CW20, "airdrop_swap_contract": SINK, "swap_msg": b64("{}")}}), funds: 0, designated: vec![s(HUB)] },
        Case { contract: HUB, name: "hub.claim_airdrop", msg: json!({"claim_airdrop": {"airdrop_token_contract": FOREIGN_CW20, "airdrop_contract": SINK, "airdrop_swap_contract": SINK, "claim_msg": b64("{}"), "swap_msg": b64("{}")}}), funds: 0, designated: reg_airdrop.clone() },
        Case { contract: HUB, name: "hub.receive.unbond", msg: json!({"receive": {"sender": "user0", "amount": "1", "msg": b64("{\"unbond\":{}}")}}), funds: 0, designated: tokens_both.clone() },
        Case { contract: HUB, name: "hub.receive.convert", msg: json!({"receive": {"sender": "user0", "amount": "1", "msg": b64("{\"convert\":{}}")}}), funds: 0, designated: tokens_both.clone() },
        Case { contract: DISPATCHER, name: "dispatcher.swap_to_reward_denom", msg: json!({"swap_to_reward_denom": {"bsei_total_bonded": "1", "stsei_total_bonded": "1"}}), funds: 0, designated: vec![s(HUB)] },
        Case { contract: DISPATCHER, name: "dispatcher.dispatch_rewards", msg: json!({"dispatch_rewards": {}}), funds: 0, designated: vec![s(HUB)] },
        Case { contract: DISPATCHER, name: "dispatcher.update_config", msg: json!({"update_config": {"krp_keeper_address": KEEPER}}), funds: 0, designated: vec![d_o.clone()] },
        Case { contract: DISPATCHER, name: "dispatcher.set_owner", msg: json!({"set_owner": {"new_owner_addr": dn}}), funds: 0, designated: vec![d_o.clone()] },
        Case { contract: DISPATCHER, name: "dispatcher.accept_ownership", msg: json!({"accept_ownership": {}}), funds: 0, designated: vec![dn.clone()] },
        Case { contract: DISPATCHER, name: "dispatcher.update_swap_contract", msg: json!({"update_swap_contract": {"swap_contract": SWAP}}), funds: 0, designated: vec![d_o.clone()] },
        Case { contract: DISPATCHER, name: "dispatcher.update_swap_denom", msg: json!({"update_swap_denom": {"swap_denom": "uother", "is_add": true}}), funds: 0, designated: vec![d_o.clone()] },
        Case { contract: DISPATCHER, name: "dispatcher.update_swap_denom.remove_listed", msg: json!({"update_swap_denom": {"swap_denom": DENOM, "is_add": false}}), funds: 0, designated: vec![d_o.clone()] },
        Case { contract: DISPATCHER, name: "dispatcher.update_swap_denom.remove_listed_extra", msg: json!({"update_swap_denom": {"swap_denom": EXTRA_SWAP_DENOM, "is_add": false}}), funds: 0, designated: vec![d_o.clone()] },
        Case { contract: DISPATCHER, name: "dispatcher.update_swap_denom.add_listed", msg: json!({"update_swap_denom": {"swap_denom": REWARD_DENOM, "is_add": true}}), funds: 0, designated: vec![d_o.clone()] },
        Case { contract: DISPATCHER, name: "dispatcher.update_config.rate", msg: json!({"update_config": {"krp_keeper_rate": "0.5"}}), funds: 0, designated: vec![d_o.clone()] },
        Case { contract: DISPATCHER, name: "dispatcher.update_oracle_contract", msg: json!({"update_oracle_contract": {"oracle_contract": ORACLE}}), funds: 0, designated: vec![d_o.clone()] },
        Case { contract: REWARD, name: "reward.update_config", msg: json!({"update_config": {"swap_contract": SWAP}}), funds: 0, designated: vec![ro.clone()] },
        Case { contract: REWARD, name: "reward.set_owner", msg: json!({"set_owner": {"new_owner_addr": rn}}), funds: 0, designated: vec![ro.clone()] },
        Case { contract: REWARD, name: "reward.accept_ownership", msg: json!({"accept_ownership": {}}), funds: 0, designated: vec![rn.clone()] },
        Case { contract: REWARD, name: "reward.swap_to_reward_denom", msg: json!({"swap_to_reward_denom": {}}), funds: 0, designated: reg_disp.clone() },
        Case { contract: REWARD, name: "reward.update_global_index", msg: json!({"update_global_index": {}}), funds: 0, designated: reg_disp.clone() },
        Case { contract: REWARD, name: "reward.increase_balance", msg: json!({"increase_balance": {"address": INTRUDER, "amount": "1000"}}), funds: 0, designated: reg_bsei.clone() },
        Case { contract: REWARD, name: "reward.decrease_balance", msg: json!({"decrease_balance": {"address": "user0", "amount": "0"}}), funds: 0, designated: reg_bsei.clone() },
        Case { contract: REWARD, name: "reward.update_swap_denom", msg: json!({"update_swap_denom": {"swap_denom": "uother", "is_add": true}}), funds: 0, designated: vec![ro.clone()] },
        Case { contract: REWARD, name: "reward.update_swap_denom.remove_listed", msg: json!({"update_swap_denom": {"swap_denom": EXTRA_SWAP_DENOM, "is_add": false}}), funds: 0, designated: vec![ro.clone()] },
        Case { contract: REWARD, name: "reward.update_config.denom", msg: json!({"update_config": {"reward_denom": REWARD_DENOM}}), funds: 0, designated: vec![ro.clone()] },
        Case { contract: REGISTRY, name: "registry.add_validator", msg: json!({"add_validator": {"validator": {"address": a_val}}}), funds: 0, designated: vec![go.clone(), s(HUB)] },
        Case { contract: REGISTRY, name: "registry.remove_validator", msg: json!({"remove_validator": {"address": reg_val}}), funds: 0, designated: vec![go.clone()] },
        Case { contract: REGISTRY, name: "registry.update_config", msg: json!({"update_config": {"hub_contract": HUB}}), funds: 0, designated: vec![go.clone()] },
        Case { contract: REGISTRY, name: "registry.set_owner", msg: json!({"set_owner": {"new_owner_addr": gn}}), funds: 0, designated: vec![go.clone()] },
        Case { contract: REGISTRY, name: "registry.accept_ownership", msg: json!({"accept_ownership": {}}), funds: 0, designated: vec![gn.clone()] },
        Case { contract: BSEI, name: "bsei.mint", msg: json!({"mint": {"recipient": INTRUDER, "amount": "1000"}}), funds: 0, designated: vec![s(HUB)] },
        Case { contract: STSEI, name: "stsei.mint", msg: json!({"mint": {"recipient": INTRUDER, "amount": "1000"}}), funds: 0, designated: vec![s(HUB)] },
        Case { contract: BSEI, name: "bsei.burn", msg: json!({"burn": {"amount": "1"}}), funds: 0, designated: vec![s(HUB)] },
        Case { contract: STSEI, name: "stsei.burn", msg: json!({"burn": {"amount": "1"}}), funds: 0, designated: vec![s(HUB)] },
        Case { contract: STSEI, name: "stsei.update_minter", msg: json!({"update_minter": {"new_minter": INTRUDER}}), funds: 0, designated: vec![s(HUB)] },
    ]
}

fn sender_classes(sim: &Sim) -> Vec<String> {
    let mut v: BTreeSet<String> = [HUB, BSEI, STSEI, REWARD, DISPATCHER, REGISTRY, OWNER, "owner2", "owner3", "owner4", UPDATER, KEEPER, INTRUDER, AIRDROP, SWAP, "user0", "user1"].iter().map(|s| s.to_string()).collect();
    for c in [HUB, DISPATCHER, REWARD, REGISTRY] {
        let (o, n) = owner_of(sim, c);
        v.insert(o);
        v.insert(n);
    }
    v.retain(|s| s.len() >= 3);
    v.into_iter().collect()
}

/// The matrix on the current state and on three derived ownership states of every ownable
/// contract: transfer pending (nominee != owner), transfer completed (ex-owner exists),
/// transfer abandoned (a replaced nominee exists).
/// Token-address immutability on a hub that is wired step by step (the deployed hub of a
/// run is wired in one message): each token address can be set exactly once, in either
/// order, whatever else is or is not registered yet.
fn c10_partial_wiring(sim: &mut Sim, rng: &mut Rng, idx: usize, out: &mut Vec<Violation>) {
    let mut w = sim.w.clone();
    let hub2 = "hubfresh";
    let init = basset::hub::InstantiateMsg {
        epoch_period: sim.cfg.epoch_period,
        underlying_coin_denom: DENOM.into(),
        unbonding_period: sim.cfg.unbonding_period,
        peg_recovery_fee: sim.cfg.peg_fee(),
        er_threshold: sim.cfg.threshold(),
        reward_denom: REWARD_DENOM.into(),
        update_reward_index_addr: UPDATER.into(),
    };
    if crate::wasm::instantiate(&mut w, hub2, Kind::Hub, OWNER, &init).is_err() {
        return;
    }
    sim.stats.check("c10_partial_wiring");
    let cfg_of = |w: &World| crate::wasm::query_json(w, hub2, &json!({"config": {}})).unwrap_or(Value::Null);
    let send = |w: &mut World, msg: Value| -> bool {
        let tx = Tx { sender: OWNER.into(), contract: hub2.into(), msg, funds: vec![] };
        let (nw, _) = crate::wasm::run_tx(w, &tx, None);
        match nw {
            Some(nw) => {
                *w = nw;
                true
            }
            None => false,
        }
    };
    let order: [(&str, &str); 2] = if rng.chance(1, 2) { [("bsei_token_contract", BSEI), ("stsei_token_contract", STSEI)] } else { [("stsei_token_contract", STSEI), ("bsei_token_contract", BSEI)] };
    // optionally register other collaborators in between, as an operator might
    for (i, (field, addr)) in order.iter().enumerate() {
        if !send(&mut w, json!({"update_config": {*field: addr}})) {
            viol(out, "C10", "token_address_can_be_set_once", idx, &format!("hub.update_config:{}_first_set_refused", field), format!("setting {} for the first time (step {}) was refused", field, i));
            return;
        }
        if rng.chance(1, 2) {
            send(&mut w, json!({"update_config": {"rewards_dispatcher_contract": DISPATCHER}}));
        }
        // every field set so far is frozen now
        for (f2, _) in order.iter().take(i + 1) {
            let before = cfg_of(&w);
            let accepted = send(&mut w, json!({"update_config": {*f2: FOREIGN_CW20}}));
            let after = cfg_of(&w);
            if accepted || before.get(*f2) != after.get(*f2) {
                viol(out, "C10", "token_addresses_immutable", idx, &format!("hub.update_config:{}_changed_after_set", f2), format!("{} could be changed after it was set (other token {} yet): {} -> {}", f2, if i == 0 { "not registered" } else { "registered" }, before.get(*f2).cloned().unwrap_or(Value::Null), after.get(*f2).cloned().unwrap_or(Value::Null)));
            }
        }
    }
}

fn c10_matrix(sim: &mut Sim, rng: &mut Rng, idx: usize, out: &mut Vec<Violation>) {
    c10_matrix_on(sim, idx, out);
    c10_partial_wiring(sim, rng, idx, out);
    // the same matrix on a fresh deployment inside its wiring window (nothing / only the
    // tokens / tokens and dispatcher registered in the hub): principals that are not
    // registered yet do not exist, so the corresponding messages must fail for everybody
    let stage = rng.below(3) as u8;
    if let Ok(mut fresh) = Sim::new_staged(&sim.cfg, sim.active.clone(), Some(stage)) {
        fresh.stats.probe(match stage {
            0 => "c10_matrix_on_unwired_deployment",
            1 => "c10_matrix_with_only_tokens_registered",
            _ => "c10_matrix_with_tokens_and_dispatcher_registered",
        });
        let mut vs = vec![];
        c10_matrix_on(&mut fresh, idx, &mut vs);
        for v in vs.iter_mut() {
            v.msg = format!("[deployment wiring stage {}] {}", stage, v.msg);
        }
        out.extend(vs);
        absorb(sim, fresh, idx, out);
    }
    // the matrix after the hub's owner has replaced collaborators (dispatcher, registry, index
    // updater, airdrop registry): the replaced principals lose their privileges at once, in the
    // hub and in every contract that asks the hub who its collaborators are
    {
        let mut c = child_of(sim);
        c.apply(&tx_step(Op::UpdateIndex { sender: UPDATER.into() }));
        let owner = c.obs.hub.as_ref().map(|h| h.config.owner.clone()).unwrap_or_default();
        let mut m = serde_json::Map::new();
        for (field, addr) in [("rewards_dispatcher_contract", "dispatcher2"), ("validators_registry_contract", "registry2"), ("update_reward_index_addr", "updater2"), ("airdrop_registry_contract", "airdrop2")] {
            if rng.chance(1, 2) {
                m.insert(field.to_string(), json!(addr));
            }
        }
        if !m.is_empty() {
            let o = c.apply(&tx_step(raw("hub_rotate_collaborators", &owner, HUB, &json!({ "update_config": Value::Object(m) }), vec![])));
            if o.map(|o| o.ok).unwrap_or(false) {
                c.stats.probe("c10_matrix_after_collaborator_rotation");
                let mut vs = vec![];
                c10_matrix_on(&mut c, idx, &mut vs);
                for v in vs.iter_mut() {
                    v.msg = format!("[after the hub owner replaced collaborators] {}", v.msg);
                }
                out.extend(vs);
            }
        }
        absorb(sim, c, idx, out);
    }
    // the dispatcher re-pointed to another hub, in one message together with other fields: the
    // previous hub loses swap / dispatch at once (judged against what the owner sent, not
    // against what the dispatcher's Config answers afterwards)
    {
        let mut c = child_of(sim);
        let d_owner = c.obs.dispatcher.as_ref().map(|d| d.owner.clone()).unwrap_or_default();
        let mut m = serde_json::Map::new();
        m.insert("hub_contract".into(), json!("hub2"));
        if rng.chance(2, 3) {
            m.insert("krp_keeper_rate".into(), json!("0.25"));
        }
        if rng.chance(1, 2) {
            m.insert("krp_keeper_address".into(), json!(KEEPER));
        }
        if rng.chance(1, 3) {
            m.insert("bsei_reward_denom".into(), json!(REWARD_DENOM));
        }
        let o = c.apply(&tx_step(raw("dispatcher_repoint_hub", &d_owner, DISPATCHER, &json!({ "update_config": Value::Object(m.clone()) }), vec![])));
        if o.map(|o| o.ok).unwrap_or(false) {
            c.stats.probe("c10_dispatcher_repointed");
            for msg in [json!({"swap_to_reward_denom": {"bsei_total_bonded": "1", "stsei_total_bonded": "1"}}), json!({"dispatch_rewards": {}})] {
                let tx = Tx { sender: HUB.into(), contract: DISPATCHER.into(), msg: msg.clone(), funds: vec![] };
                let (nw, o) = crate::wasm::run_tx(&c.w, &tx, None);
                c.stats.check("c10_matrix_cell");
                if nw.is_some() || o.err_at.map(|i| i != 0).unwrap_or(false) {
                    viol(out, "C10", "privileged_message_rejected_for_unauthorised_sender", idx, "dispatcher:previous_hub_still_accepted", format!("after UpdateConfig {} the previous hub is still accepted for {}", Value::Object(m.clone()), msg));
                }
            }
        }
        absorb(sim, c, idx, out);
    }
    let variant = rng.below(4);
    let mut c = child_of(sim);
    for contract in [HUB, DISPATCHER, REWARD, REGISTRY] {
        let (owner, _) = owner_of(&c, contract);
        if owner.is_empty() {
            continue;
        }
        let nominee = if owner == "owner2" { "owner3" } else { "owner2" };
        let set = |who: &str, n: &str| tx_step(raw("ownership", who, contract, &json!({"set_owner": {"new_owner_addr": n}}), vec![]));
        match variant {
            0 => {
                c.apply(&set(&owner, nominee));
            }
            1 => {
                c.apply(&set(&owner, nominee));
                c.apply(&tx_step(raw("ownership", nominee, contract, &json!({"accept_ownership": {}}), vec![])));
            }
            2 => {
                c.apply(&set(&owner, nominee));
                c.apply(&set(&owner, "owner4"));
            }
            _ => {
                // nomination withdrawn by nominating oneself again
                c.apply(&set(&owner, nominee));
                c.apply(&set(&owner, &owner));
            }
        }
    }
    c.stats.probe(match variant {
        0 => "c10_matrix_with_pending_transfer",
        1 => "c10_matrix_after_completed_transfer",
        2 => "c10_matrix_after_abandoned_transfer",
        _ => "c10_matrix_after_withdrawn_nomination",
    });
    let mut vs = vec![];
    c10_matrix_on(&mut c, idx, &mut vs);
    out.extend(vs);
    absorb(sim, c, idx, out);
}

fn c10_matrix_on(sim: &mut Sim, idx: usize, out: &mut Vec<Violation>) {
    let paused = sim.obs.hub.as_ref().and_then(|h| h.params.paused).unwrap_or(false);
    let cases = privileged_cases(sim);
    let senders = sender_classes(sim);
    let d0 = sim.w.digest();
    for case in &cases {
        let mut control_ok = false;
        for s in &senders {
            // every sender can afford the attached coins: the guard, not the funds, must reject
            let mut w = sim.w.clone();
            if case.funds > 0 {
                w.credit(s, DENOM, case.funds);
            }
            // burning needs a balance: hand the sender one unit (directly in the fork's token state is
            // not possible through public messages for non-minters, so only the hub's own path is a control)
            let tx = Tx { sender: s.clone(), contract: case.contract.to_string(), msg: case.msg.clone(), funds: if case.funds > 0 { vec![cosmwasm_std::Coin::new(case.funds, DENOM)] } else { vec![] } };
            let (nw, o) = crate::wasm::run_tx(&w, &tx, None);
            sim.stats.fork_txs += 1;
            let designated = case.designated.contains(s);
            if designated {
                if o.ok {
                    control_ok = true;
                }
            } else {
                sim.stats.check("c10_matrix_cell");
                if o.ok || nw.is_some() {
                    viol(out, "C10", "privileged_message_rejected_for_unauthorised_sender", idx, &format!("{}:accepted_from_unauthorised", case.name), format!("{} accepted from {} (designated: {:?}); message {}", case.name, s, case.designated, case.msg));
                } else if o.err_at.map(|i| i != 0).unwrap_or(false) && o.err_kind != Some(crate::wasm::ErrKind::Harness) {
                    // the privileged handler itself returned Ok and dispatched messages; the
                    // transaction only died further down (for reasons of this particular payload)
                    let at = o.err_at.unwrap();
                    viol(out, "C10", "privileged_message_rejected_for_unauthorised_sender", idx, &format!("{}:handler_accepted_unauthorised", case.name), format!("{} from {} (designated: {:?}) passed the handler and failed only in a message it dispatched ({:?}: {}); message {}", case.name, s, case.designated, o.calls.get(at).and_then(|c| c.exec().map(|e| (e.0.to_string(), e.1.to_string()))), o.err.clone().unwrap_or_default(), case.msg));
                }
            }
        }
        if control_ok {
            sim.stats.check("c10_control_succeeded");
        } else if !case.designated.is_empty() && !(paused && case.contract == HUB) {
            sim.stats.probe("c10_control_vacuous");
        }
    }
    if sim.w.digest() != d0 {
        sim.harness_error = Some("c10 matrix changed the parent world".into());
    }
}

// ---------------------------------------------------------------- C11 matrix

fn hub_variants(sim: &Sim) -> Vec<(&'static str, Value, u128)> {
    let a_val = sim.w.staking.validators.iter().next().cloned().unwrap_or("val0".into());
    vec![
        ("bond", json!({"bond": {}}), 1000),
        ("bond_for_st_sei", json!({"bond_for_st_sei": {}}), 1000),
        ("bond_rewards", json!({"bond_rewards": {}}), 1000),
        ("update_global_index", json!({"update_global_index": {}}), 0),
        ("withdraw_unbonded", json!({"withdraw_unbonded": {}}), 0),
        ("check_slashing", json!({"check_slashing": {}}), 0),
        ("update_config", json!({"update_config": {"update_reward_index_addr": UPDATER}}), 0),
        ("set_owner", json!({"set_owner": {"new_owner_addr": "owner2"}}), 0),
        ("accept_ownership", json!({"accept_ownership": {}}), 0),
        ("receive_unbond", json!({"receive": {"sender": "user0", "amount": "1", "msg": b64("{\"unbond\":{}}")}}), 0),
        ("receive_convert", json!({"receive": {"sender": "user0", "amount": "1", "msg": b64("{\"convert\":{}}")}}), 0),
        ("swap_hook", json!({"swap_hook": {"airdrop_token_contract": FOREIGN_CW20, "airdrop_swap_contract": SINK, "swap_msg": b64("{}")}}), 0),
        ("claim_airdrop", json!({"claim_airdrop": {"airdrop_token_contract": FOREIGN_CW20, "airdrop_contract": SINK, "airdrop_swap_contract": SINK, "claim_msg": b64("{}"), "swap_msg": b64("{}")}}), 0),
        ("redelegate_proxy", json!({"redelegate_proxy": {"src_validator": a_val, "redelegations": []}}), 0),
    ]
}

fn hub_query_fingerprint(o: &Obs) -> String {
    match &o.hub {
        Some(h) => {
            let mut p = h.params.clone();
            p.paused = None;
            format!("{:?}|{:?}|{:?}|{:?}|{:?}|{:?}|{:?}|{:?}", h.state, p, h.config, h.batch, h.history, h.requests, h.withdrawable, h.new_owner)
        }
        None => String::new(),
    }
}

fn pause_op(sim: &Sim, on: bool) -> Op {
    let owner = sim.obs.hub.as_ref().map(|h| h.config.owner.clone()).unwrap_or(OWNER.into());
    hub_update_params(&owner, None, None, None, None, Some(on), None)
}

/// the owner's un-pause, re-stating every parameter with the value already in force (what a
/// script that always sends the full parameter set does): must change nothing but the flag
fn unpause_restating_op(sim: &Sim) -> Op {
    match sim.obs.hub.as_ref() {
        Some(h) => hub_update_params(&h.config.owner, Some(h.params.epoch_period), Some(h.params.unbonding_period), Some(h.params.peg_recovery_fee), Some(h.params.er_threshold), Some(false), Some(h.params.reward_denom.clone())),
        None => pause_op(sim, false),
    }
}

fn c11_matrix(sim: &mut Sim, rng: &mut Rng, idx: usize, out: &mut Vec<Violation>) {
    let was_paused = sim.obs.hub.as_ref().and_then(|h| h.params.paused).unwrap_or(false);
    let mut c = child_of(sim);
    // half of the time the pause falls into an ownership hand-over: a nomination is pending
    // (the nominee is not the owner yet and must be treated like any other sender)
    if !was_paused && rng.chance(1, 2) {
        let owner = c.obs.hub.as_ref().map(|h| h.config.owner.clone()).unwrap_or_default();
        let o = c.apply(&tx_step(raw("set_owner", &owner, HUB, &json!({"set_owner": {"new_owner_addr": "owner4"}}), vec![])));
        if o.map(|o| o.ok).unwrap_or(false) {
            c.stats.probe("c11_matrix_with_pending_nomination");
        }
    }
    let before = hub_query_fingerprint(&c.obs);
    if !was_paused {
        let o = c.apply(&tx_step(pause_op(sim, true))).unwrap();
        if !o.ok {
            viol(out, "C11", "owner_can_pause", idx, "hub.update_params:pause_failed", format!("owner could not pause: {}", o.err.unwrap_or_default()));
            absorb(sim, c, idx, out);
            return;
        }
    }
    // queries keep working and answer the same
    if !c.obs.errors.is_empty() || c.obs.hub.as_ref().map(|h| h.state.is_none()).unwrap_or(true) {
        viol(out, "C11", "queries_work_while_paused", idx, "hub.query:failed_while_paused", format!("query errors while paused: {:?}", c.obs.errors));
    }
    if !was_paused && hub_query_fingerprint(&c.obs) != before {
        viol(out, "C11", "pause_alters_nothing", idx, "hub.query:changed_by_pause", "hub query answers changed by pausing".into());
    }
    let senders = sender_classes(&c);
    let variants = hub_variants(&c);
    let d0 = c.w.digest();
    for (name, msg, funds) in &variants {
        for s in &senders {
            let mut w = c.w.clone();
            if *funds > 0 {
                w.credit(s, DENOM, *funds);
            }
            let tx = Tx { sender: s.clone(), contract: HUB.into(), msg: msg.clone(), funds: if *funds > 0 { vec![cosmwasm_std::Coin::new(*funds, DENOM)] } else { vec![] } };
            let (nw, o) = crate::wasm::run_tx(&w, &tx, None);
            c.stats.fork_txs += 1;
            c.stats.check("c11_matrix_cell");
            if o.ok || nw.is_some() {
                viol(out, "C11", "paused_hub_rejects_everything", idx, &format!("hub.{}:accepted_while_paused", name), format!("paused hub accepted {} from {}", name, s));
            } else if o.calls.len() > 1 {
                viol(out, "C11", "paused_hub_emits_nothing", idx, &format!("hub.{}:messages_while_paused", name), format!("paused hub dispatched messages for {} from {}", name, s));
            }
        }
    }
    // token-mediated paths: a real Send with an Unbond / Convert hook must fail as well
    for tok in [Tok::B, Tok::St] {
        if let Some((u, _)) = c.obs.t(tok).and_then(|t| t.bal.iter().find(|(a, b)| a.starts_with("user") && **b > 0).map(|(a, b)| (a.clone(), *b))) {
            for hook in [Hook::Unbond, Hook::Convert] {
                let (nw, _) = crate::wasm::run_tx(&c.w, &Op::Send { tok, from: u.clone(), to: HUB.into(), amount: 1u128.into(), hook }.to_tx(), None);
                if nw.is_some() {
                    viol(out, "C11", "paused_hub_rejects_everything", idx, "hub.receive:accepted_while_paused_via_token", format!("{:?} {:?} through the token succeeded while paused", tok, hook));
                }
            }
        }
    }
    // the legacy migration is admitted while paused, but without legacy entries it must change
    // nothing — in particular it must not lift the pause for an arbitrary sender
    if c.obs.hub.as_ref().map(|h| h.legacy_wait_entries).unwrap_or(0) == 0 {
        for s in &senders {
            for limit in [None, Some(1u32)] {
                let tx = raw("migrate", s, HUB, &basset::hub::ExecuteMsg::MigrateUnbondWaitList { limit }, vec![]).to_tx();
                let (nw, _) = crate::wasm::run_tx(&c.w, &tx, None);
                c.stats.check("c11_migrate_without_legacy_entries");
                if let Some(nw) = nw {
                    if nw.digest() != d0 {
                        let still_paused = crate::wasm::query_json(&nw, HUB, &json!({"parameters": {}})).ok().and_then(|p| p.get("paused").and_then(|x| x.as_bool())).unwrap_or(false);
                        viol(out, "C11", "migration_without_legacy_entries_changes_nothing", idx, if still_paused { "hub.migrate:changed_state" } else { "hub.migrate:unpaused_by_non_owner" }, format!("MigrateUnbondWaitList by {} on a paused hub without legacy entries changed the state (paused afterwards: {})", s, still_paused));
                    }
                }
            }
        }
    }
    // update_params by a non-owner fails; by the owner succeeds (unless legacy entries remain)
    let owner = c.obs.hub.as_ref().map(|h| h.config.owner.clone()).unwrap_or_default();
    let mut senders_up = senders.clone();
    if let Some(n) = c.obs.hub.as_ref().map(|h| h.new_owner.clone()) {
        for cand in [n, Some("owner4".to_string())].into_iter().flatten() {
            if !senders_up.contains(&cand) {
                senders_up.push(cand);
            }
        }
    }
    for s in &senders_up {
        let op = hub_update_params(s, None, None, None, None, Some(true), None);
        let (nw, o) = crate::wasm::run_tx(&c.w, &op.to_tx(), None);
        if (s != &owner) && nw.is_some() {
            viol(out, "C11", "only_owner_updates_params_while_paused", idx, "hub.update_params:accepted_from_non_owner", format!("UpdateParams from {} accepted while paused", s));
        }
        if s == &owner && nw.is_none() {
            viol(out, "C11", "owner_updates_params_while_paused", idx, "hub.update_params:owner_refused_while_paused", format!("the owner's UpdateParams (keeping the pause) was refused while paused: {}", o.err.unwrap_or_default()));
        }
    }
    if c.w.digest() != d0 {
        sim.harness_error = Some("c11 matrix changed its fork".into());
    }
    // legacy guard
    let legacy = c.obs.hub.as_ref().map(|h| h.legacy_wait_entries).unwrap_or(0);
    if legacy > 0 {
        c.stats.probe("c11_legacy_entries_present");
        for p in [Some(false), None] {
            let op = hub_update_params(&owner, None, None, None, None, p, None);
            let (nw, _) = crate::wasm::run_tx(&c.w, &op.to_tx(), None);
            if nw.is_some() {
                viol(out, "C11", "no_unpause_with_legacy_entries", idx, "hub.update_params:unpaused_with_legacy", format!("UpdateParams paused={:?} accepted with {} legacy wait-list entries", p, legacy));
            }
        }
        // drain by migration (any sender), then unpausing works
        let limit = if legacy > 8 {
            match rng.below(4) {
                0 | 1 => None,
                2 => Some(1000u32),
                _ => Some(rng.range(legacy as u64 / 6 + 1, legacy as u64 + 2) as u32),
            }
        } else if rng.chance(1, 2) {
            Some(1u32)
        } else {
            None
        };
        for _ in 0..(legacy + 1) {
            c.apply(&tx_step(raw("migrate", INTRUDER, HUB, &basset::hub::ExecuteMsg::MigrateUnbondWaitList { limit }, vec![])));
            if c.obs.hub.as_ref().map(|h| h.legacy_wait_entries).unwrap_or(0) == 0 {
                break;
            }
        }
        if c.obs.hub.as_ref().map(|h| h.legacy_wait_entries).unwrap_or(0) != 0 {
            viol(out, "C11", "migration_drains_legacy_entries", idx, "hub.migrate:not_drained", "legacy entries remain after migration".into());
        }
    }
    // the owner's unpause restores operation (half of the time re-stating all current parameters)
    let unpause = if rng.chance(1, 2) { unpause_restating_op(&c) } else { pause_op(sim, false) };
    let o = c.apply(&tx_step(unpause)).unwrap();
    if !o.ok {
        viol(out, "C11", "owner_can_unpause", idx, "hub.update_params:unpause_failed", format!("owner could not unpause: {}", o.err.unwrap_or_default()));
    } else if legacy == 0 && !was_paused && hub_query_fingerprint(&c.obs) != before {
        viol(out, "C11", "pause_cycle_alters_nothing", idx, "hub.query:changed_by_pause_cycle", "hub query answers changed by a pause/unpause cycle".into());
    }
    absorb(sim, c, idx, out);
}

fn c11_transparency(sim: &mut Sim, rng: &mut Rng, idx: usize, out: &mut Vec<Violation>) {
    let h = match &sim.obs.hub {
        Some(h) => h,
        None => return,
    };
    if h.params.paused.unwrap_or(false) || h.legacy_wait_entries > 0 {
        return;
    }
    let mut g = Gen::new(rng.next_u64(), profile_for("C11"), true);
    let mut suffix: Vec<Step> = vec![];
    {
        let mut probe = child_of(sim);
        for _ in 0..rng.range(3, 9) {
            if rng.chance(1, 3) {
                let st = Step::Block { dt: rng.range(0, sim.cfg.epoch_period * 2 + 2) };
                probe.apply(&st);
                suffix.push(st);
            }
            if let Some(op) = g.gen_op(&probe) {
                if matches!(op, Op::Raw { .. }) {
                    continue;
                }
                let st = tx_step(op);
                probe.apply(&st);
                suffix.push(st);
            }
        }
    }
    sim.stats.check("c11_transparency_fork");
    let mut a = child_of(sim);
    let mut b = child_of(sim);
    let mut oks_a = vec![];
    let mut oks_b = vec![];
    for st in &suffix {
        oks_a.push(a.apply(st).map(|o| o.ok));
        // window: pause, blocked attempts, (maybe time passes), unpause — between two operations
        if rng.chance(1, 2) {
            b.apply(&tx_step(pause_op(sim, true)));
            let u = sim.cfg.user(0);
            let blocked = b.apply(&tx_step(Op::Bond { user: u, amount: 1u128.into() }));
            if blocked.map(|o| o.ok).unwrap_or(false) {
                viol(out, "C11", "paused_hub_rejects_everything", idx, "hub.bond:accepted_while_paused", "bond accepted inside a pause window".into());
            }
            b.apply(&tx_step(pause_op(sim, false)));
        }
        oks_b.push(b.apply(st).map(|o| o.ok));
    }
    let fa = format!("{}|{:?}|{:?}|{:?}|{:?}", hub_query_fingerprint(&a.obs), a.obs.tok[0].as_ref().map(|t| (&t.bal, t.supply)), a.obs.tok[1].as_ref().map(|t| (&t.bal, t.supply)), a.w.bank, a.w.staking.delegations);
    let fb = format!("{}|{:?}|{:?}|{:?}|{:?}", hub_query_fingerprint(&b.obs), b.obs.tok[0].as_ref().map(|t| (&t.bal, t.supply)), b.obs.tok[1].as_ref().map(|t| (&t.bal, t.supply)), b.w.bank, b.w.staking.delegations);
    if oks_a != oks_b || fa != fb {
        viol(out, "C11", "pause_cycles_are_transparent", idx, "hub:pause_cycle_changed_outcome", format!("a history with pause/unpause windows inserted ended differently (results {:?} vs {:?})", oks_a, oks_b));
    }
    absorb(sim, a, idx, out);
    absorb(sim, b, idx, out);
}

// ----------------------------------------------------------------- C15 split

/// A holder with balance x versus two accounts with x1 + x2 = x: after the same reward
/// deliveries the one account accrues what the two accrue together (within 1 base unit
/// in the integer view).
fn c15_split(sim: &mut Sim, rng: &mut Rng, idx: usize, out: &mut Vec<Violation>) {
    let (holder, bal) = match sim.obs.t(Tok::B).and_then(|t| t.bal.iter().find(|(a, b)| a.starts_with("user") && **b >= 2).map(|(a, b)| (a.clone(), *b))) {
        Some(x) => x,
        None => return,
    };
    if sim.obs.hub.as_ref().map(|h| h.params.paused.unwrap_or(false)).unwrap_or(true) {
        return;
    }
    if sim.w.ext.swap_mode != SwapMode::Ok || sim.w.ext.oracle_mode != OracleMode::Ok {
        return;
    }
    let fresh = "splitacct".to_string();
    let x1 = rng.range128(1, bal - 1);
    let mut a = child_of(sim);
    let mut b = child_of(sim);
    // fork B moves part of the holding to a fresh account; fork A keeps it in one
    let o = b.apply(&tx_step(Op::Transfer { tok: Tok::B, from: holder.clone(), to: fresh.clone(), amount: x1.into() })).unwrap();
    if !o.ok {
        absorb(sim, b, idx, out);
        return;
    }
    sim.stats.check("c15_split_fork");
    let acc = |s: &Sim, who: &str| -> cosmwasm_std::Uint256 {
        s.obs.reward.as_ref().map(|r| r.holders.iter().filter(|h| h.address == who).fold(cosmwasm_std::Uint256::zero(), |z, h| z + crate::monitors::reward::exact_accrued(h, r.state.global_index.atomics().u128()))).unwrap_or_default()
    };
    let a0 = acc(&a, &holder);
    let b0 = acc(&b, &holder) + acc(&b, &fresh);
    let dels = sim.w.delegations_of(HUB);
    if dels.is_empty() {
        return;
    }
    for _ in 0..rng.range(1, 3) {
        let v = rng.pick(&dels).0.clone();
        let amt = rng.log_uniform(1_000_000_000).max(1);
        for s in [&mut a, &mut b] {
            s.apply(&Step::Env(EnvEv::Reward { validator: v.clone(), denom: REWARD_DENOM.into(), amount: amt.into() }));
            s.apply(&Step::Env(EnvEv::Reward { validator: v.clone(), denom: DENOM.into(), amount: amt.into() }));
            s.apply(&tx_step(Op::UpdateIndex { sender: UPDATER.into() }));
        }
    }
    let a1 = acc(&a, &holder);
    let b1 = acc(&b, &holder) + acc(&b, &fresh);
    let (ga, gb) = (a1.checked_sub(a0).unwrap_or_default(), b1.checked_sub(b0).unwrap_or_default());
    if ga != gb {
        viol(out, "C15", "accrual_independent_of_account_split", idx, "reward:split_changes_accrual", format!("{} bSei in one account accrued {}e-18, split {}+{} accrued {}e-18", bal, ga, x1, bal - x1, gb));
    }
    absorb(sim, a, idx, out);
    absorb(sim, b, idx, out);
}

// ------------------------------------------------------------ C15 relational

fn exact_of(s: &Sim, who: &str) -> cosmwasm_std::Uint256 {
    s.obs.reward.as_ref().map(|r| r.holders.iter().filter(|h| h.address == who).fold(cosmwasm_std::Uint256::zero(), |z, h| z + crate::monitors::reward::exact_accrued(h, r.state.global_index.atomics().u128()))).unwrap_or_default()
}

/// Pairs of histories that differ only in other holders' operations (bystanders) or in the
/// order of two independent operations between the same two index updates: the observed
/// holder's accrual is identical.
fn c15_relational(sim: &mut Sim, rng: &mut Rng, idx: usize, out: &mut Vec<Violation>) {
    if sim.obs.hub.as_ref().map(|h| h.params.paused.unwrap_or(false)).unwrap_or(true) || sim.w.ext.swap_mode != SwapMode::Ok || sim.w.ext.oracle_mode != OracleMode::Ok {
        return;
    }
    let holders: Vec<(String, u128)> = sim.obs.t(Tok::B).map(|t| t.bal.iter().filter(|(a, b)| a.starts_with("user") && **b > 0).map(|(a, b)| (a.clone(), *b)).collect()).unwrap_or_default();
    if holders.len() < 3 {
        return;
    }
    let dels = sim.w.delegations_of(HUB);
    if dels.is_empty() {
        return;
    }
    sim.stats.check("c15_relational_fork");
    let observed = holders[0].0.clone();
    let (o1, b1) = holders[1].clone();
    let (o2, b2) = holders[2].clone();
    // operations of the other two holders that leave the total bSei balance unchanged
    let op_a = Op::Transfer { tok: Tok::B, from: o1.clone(), to: o2.clone(), amount: rng.range128(1, b1).into() };
    let op_b = if rng.chance(1, 2) { Op::Claim { user: o2.clone(), recipient: None } } else { Op::Transfer { tok: Tok::B, from: o2.clone(), to: "bystander".into(), amount: rng.range128(1, b2).into() } };
    let v = rng.pick(&dels).0.clone();
    let amt = rng.log_uniform(1_000_000_000).max(1);
    let deliver = |s: &mut Sim| {
        s.apply(&Step::Env(EnvEv::Reward { validator: v.clone(), denom: REWARD_DENOM.into(), amount: amt.into() }));
        s.apply(&Step::Env(EnvEv::Reward { validator: v.clone(), denom: DENOM.into(), amount: amt.into() }));
        s.apply(&tx_step(Op::UpdateIndex { sender: UPDATER.into() }));
    };
    // fork 0: nothing in between; fork 1: a then b; fork 2: b then a
    let mut res = vec![];
    for variant in 0..3 {
        let mut c = child_of(sim);
        deliver(&mut c);
        match variant {
            1 => {
                c.apply(&tx_step(op_a.clone()));
                c.apply(&tx_step(op_b.clone()));
            }
            2 => {
                c.apply(&tx_step(op_b.clone()));
                c.apply(&tx_step(op_a.clone()));
            }
            _ => {}
        }
        deliver(&mut c);
        let all: BTreeMap<String, cosmwasm_std::Uint256> = c.obs.reward.as_ref().map(|r| r.holders.iter().map(|h| (h.address.clone(), exact_of(&c, &h.address))).collect()).unwrap_or_default();
        res.push((exact_of(&c, &observed), all));
        absorb(sim, c, idx, out);
    }
    if res[0].0 != res[1].0 || res[0].0 != res[2].0 {
        viol(out, "C15", "accrual_independent_of_bystanders", idx, "reward:bystanders_change_accrual", format!("{} accrues {}e-18 alone, {}e-18 / {}e-18 when {} and {} transact in between", observed, res[0].0, res[1].0, res[2].0, o1, o2));
    }
    // commuting reorder: a;b versus b;a (when both orders executed the same set of operations)
    if res[1].1 != res[2].1 {
        // a claim in op_b commutes with a transfer *to* the claimer only in the exact view; compare that view
        viol(out, "C15", "accrual_independent_of_operation_order", idx, "reward:order_changes_accrual", format!("swapping two independent operations of {} and {} between two index updates changed some holder's accrual", o1, o2));
    }
}


// ======================================================================= C20 (instantiate)

/// "Whatever sequence of instantiate and owner update messages is applied": fresh hub and
/// dispatcher instances are created next to the deployment with arbitrary parameter values
/// (in and out of range), followed by a short random update sequence; whenever a message is
/// accepted the stored values are in range and the fixed denominations are the instantiated
/// ones; a rejected update leaves the instance's storage untouched.
fn c20_instantiate(sim: &mut Sim, rng: &mut Rng, idx: usize, out: &mut Vec<Violation>) {
    use crate::chain::Kind;
    use crate::wasm::{instantiate, query_typed, run_tx};
    use cosmwasm_std::Decimal;
    use std::str::FromStr;
    let decs = ["0", "0.000000000000000001", "0.005", "0.5", "0.999999999999999999", "1", "1.000000000000000001", "1.5", "2", "340", "340282366920938463463.374607431768211455"];
    let one = Decimal::one();
    let mut w = sim.w.clone();
    let mut stats = Stats::default();
    let pick = |rng: &mut Rng| Decimal::from_str(*rng.pick(&decs)).unwrap();
    let opt = |rng: &mut Rng| if rng.chance(1, 2) { Some(Decimal::from_str(*rng.pick(&decs)).unwrap()) } else { None };
    for round in 0..2 {
        // ---- hub
        let (fee, thr) = (pick(rng), pick(rng));
        let denom = rng.pick(&[DENOM, "uother"]).to_string();
        let addr = format!("hub_i{}_{}", idx, round);
        let msg = basset::hub::InstantiateMsg {
            epoch_period: rng.range(1, 100),
            underlying_coin_denom: denom.clone(),
            unbonding_period: rng.range(1, 200),
            peg_recovery_fee: fee,
            er_threshold: thr,
            reward_denom: REWARD_DENOM.into(),
            update_reward_index_addr: UPDATER.into(),
        };
        stats.check("c20_instantiate_hub");
        let check_hub = |w: &crate::chain::World, what: &str, out: &mut Vec<Violation>| {
            match query_typed::<_, basset::hub::Parameters>(w, &addr, &basset::hub::QueryMsg::Parameters {}) {
                Ok(p) => {
                    if p.peg_recovery_fee > one {
                        viol(out, "C20", "peg_fee_le_one", idx, "hub.instantiate:peg_recovery_fee", format!("{}: fresh hub stores peg_recovery_fee {}", what, p.peg_recovery_fee));
                    }
                    if p.er_threshold > one {
                        viol(out, "C20", "threshold_le_one", idx, "hub.instantiate:er_threshold", format!("{}: fresh hub stores er_threshold {}", what, p.er_threshold));
                    }
                    if p.underlying_coin_denom != denom {
                        viol(out, "C20", "underlying_denom_immutable", idx, "hub.instantiate:underlying_coin_denom", format!("{}: fresh hub instantiated with {} reports {}", what, denom, p.underlying_coin_denom));
                    }
                }
                Err(e) => viol(out, "C20", "parameters_query_works", idx, "hub.instantiate:query", format!("{}: Parameters query failed on a fresh hub: {}", what, e)),
            }
        };
        match instantiate(&mut w, &addr, Kind::Hub, OWNER, &msg) {
            Err(_) => {
                stats.probe("c20_instantiate_hub_rejected");
                if w.contracts.contains_key(&addr) {
                    viol(out, "C20", "rejected_update_changes_nothing", idx, "hub.instantiate:rejected_but_exists", "rejected instantiate left a contract behind".into());
                }
            }
            Ok(()) => {
                if fee > one || thr > one {
                    stats.probe("c20_instantiate_hub_out_of_range_accepted_in_range_stored");
                }
                check_hub(&w, &format!("instantiate(fee {}, threshold {})", fee, thr), out);
                for _ in 0..rng.range(1, 5) {
                    let (f, t) = (opt(rng), opt(rng));
                    let sender = if rng.chance(1, 6) { INTRUDER } else { OWNER };
                    let tx = Tx::new(sender, &addr, &basset::hub::ExecuteMsg::UpdateParams { epoch_period: if rng.chance(1, 3) { Some(rng.range(1, 100)) } else { None }, unbonding_period: None, peg_recovery_fee: f, er_threshold: t, paused: if rng.chance(1, 3) { Some(rng.chance(1, 2)) } else { None }, reward_denom: None }, vec![]);
                    stats.check("c20_fresh_hub_update");
                    let before = w.contracts[&addr].storage.clone();
                    let (nw, o) = run_tx(&w, &tx, None);
                    match nw {
                        Some(n) => {
                            w = n;
                            check_hub(&w, &format!("update_params(fee {:?}, threshold {:?})", f, t), out);
                        }
                        None => {
                            let _ = o;
                            if w.contracts[&addr].storage != before {
                                viol(out, "C20", "rejected_update_changes_nothing", idx, "hub.update_params:fresh_rejected_changed", "rejected update changed storage".into());
                            }
                        }
                    }
                }
            }
        }
        // ---- dispatcher
        let rate = pick(rng);
        let sdenom = rng.pick(&[DENOM, "uother", ""]).to_string();
        let daddr = format!("disp_i{}_{}", idx, round);
        let dmsg = basset_sei_rewards_dispatcher::msg::InstantiateMsg {
            hub_contract: HUB.into(),
            bsei_reward_contract: REWARD.into(),
            stsei_reward_denom: sdenom.clone(),
            bsei_reward_denom: REWARD_DENOM.into(),
            krp_keeper_address: KEEPER.into(),
            krp_keeper_rate: rate,
            swap_contract: SWAP.into(),
            swap_denoms: vec![DENOM.into(), REWARD_DENOM.into()],
            oracle_contract: ORACLE.into(),
        };
        stats.check("c20_instantiate_dispatcher");
        let check_disp = |w: &crate::chain::World, what: &str, out: &mut Vec<Violation>| match query_typed::<_, basset::dispatcher::ConfigResponse>(w, &daddr, &basset_sei_rewards_dispatcher::msg::QueryMsg::Config {}) {
            Ok(c) => {
                if c.krp_keeper_rate > one {
                    viol(out, "C20", "keeper_rate_le_one", idx, "dispatcher.instantiate:krp_keeper_rate", format!("{}: fresh dispatcher stores keeper rate {}", what, c.krp_keeper_rate));
                }
                if c.stsei_reward_denom != sdenom {
                    viol(out, "C20", "stsei_reward_denom_immutable", idx, "dispatcher.instantiate:stsei_reward_denom", format!("{}: fresh dispatcher instantiated with {} reports {}", what, sdenom, c.stsei_reward_denom));
                }
            }
            Err(e) => viol(out, "C20", "parameters_query_works", idx, "dispatcher.instantiate:query", format!("{}: Config query failed on a fresh dispatcher: {}", what, e)),
        };
        match instantiate(&mut w, &daddr, Kind::Dispatcher, OWNER, &dmsg) {
            Err(_) => stats.probe("c20_instantiate_dispatcher_rejected"),
            Ok(()) => {
                check_disp(&w, &format!("instantiate(rate {})", rate), out);
                for _ in 0..rng.range(1, 4) {
                    let r = opt(rng);
                    let tx = Tx::new(
                        OWNER,
                        &daddr,
                        &basset_sei_rewards_dispatcher::msg::ExecuteMsg::UpdateConfig { hub_contract: None, bsei_reward_contract: None, stsei_reward_denom: if rng.chance(1, 4) { Some(match rng.below(4) { 0 => "uother".to_string(), 1 => sdenom.clone(), 2 => sdenom.to_uppercase(), _ => sdenom.chars().enumerate().map(|(i, c)| if i == 0 { c.to_ascii_uppercase() } else { c }).collect() }) } else { None }, bsei_reward_denom: None, krp_keeper_address: if rng.chance(1, 2) { Some(KEEPER.into()) } else { None }, krp_keeper_rate: r },
                        vec![],
                    );
                    stats.check("c20_fresh_dispatcher_update");
                    let before = w.contracts[&daddr].storage.clone();
                    let (nw, _) = run_tx(&w, &tx, None);
                    match nw {
                        Some(n) => {
                            w = n;
                            check_disp(&w, &format!("update_config(rate {:?})", r), out);
                        }
                        None => {
                            if w.contracts[&daddr].storage != before {
                                viol(out, "C20", "rejected_update_changes_nothing", idx, "dispatcher.update_config:fresh_rejected_changed", "rejected update changed storage".into());
                            }
                        }
                    }
                }
            }
        }
    }
    for (k, v) in &stats.probes {
        *sim.stats.probes.entry(k).or_insert(0) += v;
    }
    for (k, v) in &stats.checks {
        *sim.stats.checks.entry(k).or_insert(0) += v;
    }
}
