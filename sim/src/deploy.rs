//! Genesis: per-run swarm configuration and deployment through the contracts' real
//! `instantiate` entry points and wiring messages.

use crate::chain::*;
use crate::wasm::{self, Tx};
use cosmwasm_std::{Decimal, Uint128};
use serde::{Deserialize, Serialize};
use std::str::FromStr;

#[derive(Clone, Debug, PartialEq, Serialize, Deserialize)]
pub struct Cfg {
    pub users: usize,
    pub chain_validators: usize,
    pub registered_validators: usize,
    pub epoch_period: u64,
    pub unbonding_period: u64,
    pub peg_recovery_fee: String,
    pub er_threshold: String,
    pub keeper_rate: String,
    pub oracle_rate_atomics: Uint128,
    pub swap_slip_ppm: i64,
    pub extra_price_atomics: Uint128,
    /// 0 dust, 1 small, 2 typical, 3 large
    pub amount_scale: u8,
    pub user_funds: Uint128,
    pub genesis_time: u64,
    /// legacy `wait`-prefixed unbond wait-list entries seeded into the hub (E7):
    /// (user, batch id, bSei amount); the hub starts paused when non-empty
    #[serde(default)]
    pub legacy_wait: Vec<(String, u64, Uint128)>,
    /// further legacy entries of holders that are not simulated users (`legacyholder<i>`,
    /// batch 0, amount i + 1): lists longer than the hub's default page of 1000
    #[serde(default)]
    pub legacy_bulk: u32,
    /// every second validator address is written in upper case (bech32 allows all-upper-case)
    #[serde(default)]
    pub upper_validators: bool,
    /// token-focused world of C18(b): initial balances for both tokens, no hub
    #[serde(default)]
    pub token_world: Option<TokenWorld>,
    /// buggify switches (legal chain behaviour, chosen per run)
    #[serde(default)]
    pub reverse_delegation_order: bool,
    #[serde(default)]
    pub swap_extra_round_down: bool,
}

#[derive(Clone, Debug, PartialEq, Serialize, Deserialize)]
pub struct TokenWorld {
    pub bsei_initial: Vec<(String, Uint128)>,
    pub stsei_initial: Vec<(String, Uint128)>,
}

impl Cfg {
    pub fn user(&self, i: usize) -> String {
        format!("user{}", i)
    }
    pub fn users_list(&self) -> Vec<String> {
        (0..self.users).map(|i| self.user(i)).collect()
    }
    pub fn validator(i: usize) -> String {
        format!("val{}", i)
    }
    pub fn validator_name(&self, i: usize) -> String {
        if self.upper_validators && i % 2 == 1 {
            format!("VAL{}", i)
        } else {
            format!("val{}", i)
        }
    }
    pub fn peg_fee(&self) -> Decimal {
        Decimal::from_str(&self.peg_recovery_fee).unwrap()
    }
    pub fn threshold(&self) -> Decimal {
        Decimal::from_str(&self.er_threshold).unwrap()
    }
    pub fn keeper(&self) -> Decimal {
        Decimal::from_str(&self.keeper_rate).unwrap()
    }
}

pub fn default_cfg() -> Cfg {
    Cfg {
        users: 3,
        chain_validators: 3,
        registered_validators: 2,
        epoch_period: 30,
        unbonding_period: 210,
        peg_recovery_fee: "0.005".into(),
        er_threshold: "1".into(),
        keeper_rate: "0.05".into(),
        oracle_rate_atomics: Uint128::new(2_000_000_000_000_000_000),
        swap_slip_ppm: 0,
        extra_price_atomics: Uint128::new(3_000_000_000_000_000_000),
        amount_scale: 2,
        user_funds: Uint128::new(1_000_000_000_000),
        genesis_time: 1_000_000,
        legacy_wait: vec![],
        legacy_bulk: 0,
        upper_validators: false,
        token_world: None,
        reverse_delegation_order: false,
        swap_extra_round_down: false,
    }
}

/// Build the genesis world. Errors here are harness errors (exit 2), except for
/// token worlds, where a rejected token instantiate is a legal outcome and is
/// reported through `Deployed.rejected`.
pub struct Deployed {
    pub w: World,
    pub rejected: Vec<(String, String)>,
}

pub fn deploy(cfg: &Cfg) -> Result<Deployed, String> {
    deploy_staged(cfg, None)
}

/// `stage`: None = fully wired (every run starts here). Some(0) = contracts instantiated, hub
/// not wired at all; Some(1) = only the two token addresses registered; Some(2) = tokens and
/// dispatcher registered (registry, airdrop registry still unset). The partially wired states
/// are the deployment window every real deployment passes through (used by the C10 matrix).
pub fn deploy_staged(cfg: &Cfg, stage: Option<u8>) -> Result<Deployed, String> {
    let mut w = World::new(cfg.genesis_time, cfg.unbonding_period);
    w.ext.oracle_rate_atomics = cfg.oracle_rate_atomics.u128();
    w.ext.swap_slip_ppm = cfg.swap_slip_ppm;
    w.ext.extra_price_atomics = cfg.extra_price_atomics.u128();
    w.ext.swap_extra_round_down = cfg.swap_extra_round_down;
    w.staking.reverse_query_order = cfg.reverse_delegation_order;
    for i in 0..cfg.chain_validators {
        w.staking.validators.insert(cfg.validator_name(i));
    }
    for u in cfg.users_list() {
        w.credit(&u, DENOM, cfg.user_funds.u128());
        // pocket money in the other coins (never needed by a well-formed message)
        w.credit(&u, REWARD_DENOM, 1_000_000);
        w.credit(&u, EXTRA_SWAP_DENOM, 1_000_000);
    }
    w.credit(INTRUDER, DENOM, cfg.user_funds.u128());
    let mut rejected = vec![];

    if let Some(tw) = &cfg.token_world {
        return deploy_token_world(cfg, tw, w);
    }

    wasm::instantiate(
        &mut w,
        HUB,
        Kind::Hub,
        OWNER,
        &basset::hub::InstantiateMsg {
            epoch_period: cfg.epoch_period,
            underlying_coin_denom: DENOM.into(),
            unbonding_period: cfg.unbonding_period,
            peg_recovery_fee: cfg.peg_fee(),
            er_threshold: cfg.threshold(),
            reward_denom: REWARD_DENOM.into(),
            update_reward_index_addr: UPDATER.into(),
        },
    )
    .map_err(|e| format!("hub instantiate: {}", e))?;

    wasm::instantiate(
        &mut w,
        BSEI,
        Kind::BSei,
        OWNER,
        &basset_sei_token_bsei::msg::TokenInitMsg {
            name: "bonded sei".into(),
            symbol: "BSEI".into(),
            decimals: 6,
            initial_balances: vec![],
            hub_contract: HUB.into(),
        },
    )
    .map_err(|e| format!("bsei instantiate: {}", e))?;

    wasm::instantiate(&mut w, STSEI, Kind::StSei, OWNER, &stsei_init(HUB, vec![]))
        .map_err(|e| format!("stsei instantiate: {}", e))?;

    wasm::instantiate(
        &mut w,
        REWARD,
        Kind::Reward,
        OWNER,
        &basset::reward::InstantiateMsg {
            hub_contract: HUB.into(),
            reward_denom: REWARD_DENOM.into(),
            swap_contract: SWAP.into(),
            swap_denoms: vec![EXTRA_SWAP_DENOM.into()],
        },
    )
    .map_err(|e| format!("reward instantiate: {}", e))?;

    wasm::instantiate(
        &mut w,
        DISPATCHER,
        Kind::Dispatcher,
        OWNER,
        &basset_sei_rewards_dispatcher::msg::InstantiateMsg {
            hub_contract: HUB.into(),
            bsei_reward_contract: REWARD.into(),
            stsei_reward_denom: DENOM.into(),
            bsei_reward_denom: REWARD_DENOM.into(),
            krp_keeper_address: KEEPER.into(),
            krp_keeper_rate: cfg.keeper(),
            swap_contract: SWAP.into(),
            swap_denoms: vec![DENOM.into(), REWARD_DENOM.into(), EXTRA_SWAP_DENOM.into()],
            oracle_contract: ORACLE.into(),
        },
    )
    .map_err(|e| format!("dispatcher instantiate: {}", e))?;

    let registry: Vec<basset_sei_validators_registry::registry::Validator> = (0..cfg.registered_validators)
        .map(|i| basset_sei_validators_registry::registry::Validator { address: cfg.validator_name(i) })
        .collect();
    wasm::instantiate(
        &mut w,
        REGISTRY,
        Kind::Registry,
        OWNER,
        &basset_sei_validators_registry::msg::InstantiateMsg { registry, hub_contract: HUB.into() },
    )
    .map_err(|e| format!("registry instantiate: {}", e))?;

    wasm::add_stub(&mut w, SWAP, Kind::Swap);
    wasm::add_stub(&mut w, ORACLE, Kind::Oracle);
    wasm::add_stub(&mut w, SINK, Kind::Sink);
    wasm::add_stub(&mut w, AIRDROP, Kind::Sink);
    // a foreign cw20 (real cw20-base code) whose tokens the intruder owns
    wasm::instantiate(
        &mut w,
        FOREIGN_CW20,
        Kind::StSei,
        INTRUDER,
        &stsei_init(HUB, vec![(INTRUDER.to_string(), Uint128::new(1_000_000_000))]),
    )
    .map_err(|e| format!("foreign cw20 instantiate: {}", e))?;

    let some = |on: bool, a: &str| if on { Some(a.to_string()) } else { None };
    let full = stage.is_none();
    let st = stage.unwrap_or(9);
    if st > 0 {
        let wire = Tx::new(
            OWNER,
            HUB,
            &basset::hub::ExecuteMsg::UpdateConfig {
                rewards_dispatcher_contract: some(full || st >= 2, DISPATCHER),
                validators_registry_contract: some(full, REGISTRY),
                bsei_token_contract: some(true, BSEI),
                stsei_token_contract: some(true, STSEI),
                airdrop_registry_contract: some(full, AIRDROP),
                rewards_contract: some(full || st >= 2, REWARD),
                update_reward_index_addr: None,
            },
            vec![],
        );
        let (nw, out) = wasm::run_tx(&w, &wire, None);
        match nw {
            Some(nw) => w = nw,
            None => return Err(format!("hub wiring failed: {:?}", out.err)),
        }
    }

    if !cfg.legacy_wait.is_empty() || cfg.legacy_bulk > 0 {
        seed_legacy_wait(&mut w, cfg)?;
    }
    let _ = &mut rejected;
    Ok(Deployed { w, rejected })
}

pub fn stsei_init(hub: &str, initial: Vec<(String, Uint128)>) -> basset_sei_token_stsei::msg::TokenInitMsg {
    basset_sei_token_stsei::msg::TokenInitMsg {
        name: "staked sei".into(),
        symbol: "STSEI".into(),
        decimals: 6,
        initial_balances: initial
            .into_iter()
            .map(|(a, b)| cw20::Cw20Coin { address: a, amount: b })
            .collect(),
        hub_contract: hub.into(),
        marketing: Some(cw20_base::msg::InstantiateMarketingInfo {
            project: None,
            description: None,
            marketing: Some(OWNER.into()),
            logo: None,
        }),
    }
}

/// E7: legacy wait-list entries exactly as the pre-migration hub stored them
/// (`Bucket::multilevel(&[b"wait", json(addr)])` keyed by `json(batch id)`, value `Uint128`),
/// written with the same cosmwasm-storage primitives the hub reads them with; the hub
/// is put in the paused state such a deployment is in before migration.
fn seed_legacy_wait(w: &mut World, cfg: &Cfg) -> Result<(), String> {
    use cosmwasm_std::to_json_vec;
    use cosmwasm_std::Storage;
    let inst = w.contracts.get_mut(HUB).unwrap();
    let mut ms = wasm::MemStore(&mut inst.storage);
    let bulk: Vec<(String, u64, Uint128)> = (0..cfg.legacy_bulk).map(|i| (format!("legacyholder{}", i), 0u64, Uint128::new(i as u128 + 1))).collect();
    for (user, batch, amount) in cfg.legacy_wait.iter().chain(bulk.iter()) {
        let addr = to_json_vec(user).map_err(|e| e.to_string())?;
        let b = to_json_vec(batch).map_err(|e| e.to_string())?;
        // key layout of cosmwasm_storage::to_length_prefixed_nested(&[b"wait", addr]) + key
        let mut key = vec![];
        for ns in [&b"wait"[..], &addr[..]] {
            key.extend_from_slice(&(ns.len() as u16).to_be_bytes());
            key.extend_from_slice(ns);
        }
        key.extend_from_slice(&b);
        ms.set(&key, &to_json_vec(amount).map_err(|e| e.to_string())?);
    }
    // paused = true, as the migration procedure requires
    let pkey = b"\x00\x0bparameteres".to_vec();
    let raw = ms.get(&pkey).ok_or("hub parameters missing")?;
    let mut p: basset::hub::Parameters = cosmwasm_std::from_json(&raw).map_err(|e| e.to_string())?;
    p.paused = Some(true);
    ms.set(&pkey, &to_json_vec(&p).map_err(|e| e.to_string())?);
    Ok(())
}

fn deploy_token_world(_cfg: &Cfg, tw: &TokenWorld, mut w: World) -> Result<Deployed, String> {
    let mut rejected = vec![];
    // collaborators: HUB answers Config queries and accepts CheckSlashing; SINK plays
    // the reward contract (see DESIGN section 6, C18)
    wasm::add_stub(&mut w, HUB, Kind::CfgStub);
    wasm::add_stub(&mut w, SINK, Kind::Sink);
    let b_init = basset_sei_token_bsei::msg::TokenInitMsg {
        name: "bonded sei".into(),
        symbol: "BSEI".into(),
        decimals: 6,
        initial_balances: tw
            .bsei_initial
            .iter()
            .map(|(a, b)| cw20::Cw20Coin { address: a.clone(), amount: *b })
            .collect(),
        hub_contract: HUB.into(),
    };
    if let Err(e) = wasm::instantiate(&mut w, BSEI, Kind::BSei, OWNER, &b_init) {
        rejected.push((BSEI.to_string(), e));
    }
    if let Err(e) = wasm::instantiate(&mut w, STSEI, Kind::StSei, OWNER, &stsei_init(HUB, tw.stsei_initial.clone())) {
        rejected.push((STSEI.to_string(), e));
    }
    Ok(Deployed { w, rejected })
}
